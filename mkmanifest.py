#!/usr/bin/env python3
# Generates /verif/MANIFEST.json from the table below (kept in one place so that the manifest is always valid).
import json, subprocess, sys
TECH = "contract-based deductive verification: weakest-precondition VCs generated over go/ssa of the real functions, //@ contracts in <pkg>/zz_contracts_verif.go, discharged by z3-new 5.1.0 / cvc5 1.0 / z3 4.8.12 (raced), counterexamples replayed with go test -overlay"
NOTE_COMMON = "Trusted: go/ssa, the acv generator, the SMT solvers; ints are 64-bit bit-vectors; slices 0<=len<=cap<=2^48; uncontracted callees havoc their results and argument-reachable memory only (A4); sequential semantics (A8); pointer params/receivers non-nil (A12). Everything assumed per run is listed in the evidence file (trusted_base, assumptions)."
# id -> (claimed?, level text, extra note / or N/A reason)
P = {}
def claim(pid, text, note=""):
    P[pid] = (True, text, (note + " " if note else "") + NOTE_COMMON)
def na(pid, reason):
    P[pid] = (False, reason, "")

exec(open('/verif/manifest_table.py').read())

def chk(pid, text, note):
    return {"property_id":pid,
      "quick_cmd":f"/verif/bin/acv check --prop {pid} --tier quick",
      "thorough_cmd":f"/verif/bin/acv check --prop {pid} --tier thorough",
      "evidence_file":f"/verif/evidence/{pid}.json",
      "replay_cmd_template":"/verif/bin/acv replay {path}",
      "engine":"acv",
      "level_claimed":{"category":"proof","text":text,"design_ref":"DESIGN.md §5 "+pid},
      "level_note":note,
      "technique":TECH}
hooks = subprocess.run(["git","-C","/repo","log","--format=%h","--grep=^verif:"],capture_output=True,text=True).stdout.split()
m={"version":1,
 "setup_cmd":"/verif/setup.sh",
 "hooks":{"guard":"verif","enable":"go/packages BuildFlags -tags=verif; contract files <pkg>/zz_contracts_verif.go are comment-only and carry //go:build verif, so with the tag off the compiler never sees them",
          "baseline_off_cmd":"cd /repo && go test -mod=mod -json -vet=off -count=1 -timeout 25m ./...",
          "source_commits":hooks,"add_only":True},
 "engines":[{"name":"acv","path":"/verif/engine","serves_properties":sorted(k for k,v in P.items() if v[0]),"kind_free_text":"self-written VC generator (weakest preconditions over go/ssa, 64-bit bit-vector semantics, Houdini-checked automatic loop invariants) + SMT back ends z3-new 5.1.0 / cvc5 1.0 / z3 4.8.12"}],
 "checks":[chk(k,v[1],v[2]) for k,v in sorted(P.items()) if v[0]],
 "not_applicable":[{"property_id":k,"reason":v[1]} for k,v in sorted(P.items()) if not v[0]],
 "notes":"See DESIGN.md. Exit codes: 0 all admitted obligations discharged (KNOWN-FINDING lines allowed), 1 at least one VIOLATION line, 2 machinery error (never a pass)."}
json.dump(m,open('/verif/MANIFEST.json','w'),indent=1)
print("checks:",[c["property_id"] for c in m["checks"]])
