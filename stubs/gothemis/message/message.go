package message

import (
	"crypto/ecdh"

	"github.com/cossacklabs/themis/gothemis/cell"
	"github.com/cossacklabs/themis/gothemis/errors"
	"github.com/cossacklabs/themis/gothemis/keys"
)

type SecureMessage struct {
	private    *keys.PrivateKey
	peerPublic *keys.PublicKey
}

func New(private *keys.PrivateKey, peerPublic *keys.PublicKey) *SecureMessage {
	return &SecureMessage{private, peerPublic}
}

func (sm *SecureMessage) shared() ([]byte, error) {
	if sm.private == nil || sm.peerPublic == nil || len(sm.private.Value) != 45 || len(sm.peerPublic.Value) != 45 {
		return nil, errors.New("bad keys")
	}
	p, err := ecdh.X25519().NewPrivateKey(sm.private.Value[12:44])
	if err != nil {
		return nil, err
	}
	q, err := ecdh.X25519().NewPublicKey(sm.peerPublic.Value[12:44])
	if err != nil {
		return nil, err
	}
	return p.ECDH(q)
}

// Wrap of 32 bytes gives 84 bytes: 24 header + 12 nonce + 32 + 16 tag
func (sm *SecureMessage) Wrap(message []byte) ([]byte, error) {
	s, err := sm.shared()
	if err != nil {
		return nil, err
	}
	c, _ := cell.SealWithKey(&keys.SymmetricKey{Value: s})
	enc, err := c.Encrypt(message, nil)
	if err != nil {
		return nil, err
	}
	return append(make([]byte, 24), enc...), nil
}

func (sm *SecureMessage) Unwrap(message []byte) ([]byte, error) {
	s, err := sm.shared()
	if err != nil {
		return nil, err
	}
	if len(message) < 24 {
		return nil, errors.New("short")
	}
	c, _ := cell.SealWithKey(&keys.SymmetricKey{Value: s})
	return c.Decrypt(message[24:], nil)
}
func (sm *SecureMessage) Sign(message []byte) ([]byte, error)   { return nil, errors.New("unsupported") }
func (sm *SecureMessage) Verify(message []byte) ([]byte, error) { return nil, errors.New("unsupported") }
