package cell

import (
	"crypto/aes"
	"crypto/cipher"
	"crypto/rand"
	"crypto/sha256"

	"github.com/cossacklabs/themis/gothemis/errors"
	"github.com/cossacklabs/themis/gothemis/keys"
)

const (
	ModeSeal = iota
	ModeTokenProtect
	ModeContextImprint
)

var ErrMissingKey = errors.NewWithCode(errors.InvalidParameter, "empty symmetric key for Secure Cell")

type SecureCellSeal struct{ key []byte }

func SealWithKey(key *keys.SymmetricKey) (*SecureCellSeal, error) {
	if key == nil || len(key.Value) == 0 {
		return nil, ErrMissingKey
	}
	return &SecureCellSeal{key.Value}, nil
}

func aead(key []byte) cipher.AEAD {
	k := sha256.Sum256(key)
	b, _ := aes.NewCipher(k[:])
	g, _ := cipher.NewGCM(b)
	return g
}

func (sc *SecureCellSeal) Encrypt(message, context []byte) ([]byte, error) {
	if len(message) == 0 {
		return nil, errors.NewWithCode(errors.InvalidParameter, "empty message")
	}
	g := aead(sc.key)
	nonce := make([]byte, 12)
	rand.Read(nonce)
	return g.Seal(nonce, nonce, message, context), nil
}

func (sc *SecureCellSeal) Decrypt(encrypted, context []byte) ([]byte, error) {
	if len(encrypted) < 28 {
		return nil, errors.New("failed to decrypt")
	}
	g := aead(sc.key)
	out, err := g.Open(nil, encrypted[:12], encrypted[12:], context)
	if err != nil {
		return nil, errors.New("failed to decrypt")
	}
	return out, nil
}

type SecureCell struct {
	key  []byte
	mode int
}

func New(key []byte, mode int) *SecureCell { return &SecureCell{key, mode} }
func (sc *SecureCell) Protect(data, context []byte) ([]byte, []byte, error) {
	s, err := SealWithKey(&keys.SymmetricKey{Value: sc.key})
	if err != nil {
		return nil, nil, err
	}
	out, err := s.Encrypt(data, context)
	return out, nil, err
}
func (sc *SecureCell) Unprotect(protected, additional, context []byte) ([]byte, error) {
	s, err := SealWithKey(&keys.SymmetricKey{Value: sc.key})
	if err != nil {
		return nil, err
	}
	return s.Decrypt(protected, context)
}
