package errors

type ThemisErrorCode int

const (
	Success ThemisErrorCode = 0
	Fail ThemisErrorCode = 11
	InvalidParameter ThemisErrorCode = 12
	NoMemory ThemisErrorCode = 13
	BufferTooSmall ThemisErrorCode = 14
	DataCorrupt ThemisErrorCode = 15
	InvalidSignature ThemisErrorCode = 16
	NotSupported ThemisErrorCode = 17
)

type ThemisError struct {
	msg  string
	code ThemisErrorCode
}

func (e *ThemisError) Error() string         { return e.msg }
func (e *ThemisError) Code() ThemisErrorCode { return e.code }
func New(d string) *ThemisError              { return &ThemisError{d, Fail} }
func NewWithCode(c ThemisErrorCode, d string) *ThemisError {
	return &ThemisError{d, c}
}
