package keys

import (
	"crypto/ecdh"
	"crypto/rand"
)

const (
	TypeEC  = 0
	TypeRSA = 1
)

type PrivateKey struct{ Value []byte }
type PublicKey struct{ Value []byte }
type Keypair struct {
	Private *PrivateKey
	Public  *PublicKey
}
type SymmetricKey struct{ Value []byte }

// 45-byte public / 45-byte private containers, same sizes as Themis EC P-256 keys
func New(keytype int) (*Keypair, error) {
	k, err := ecdh.X25519().GenerateKey(rand.Reader)
	if err != nil {
		return nil, err
	}
	pub := make([]byte, 45)
	copy(pub, "UEC2")
	copy(pub[12:], k.PublicKey().Bytes())
	priv := make([]byte, 45)
	copy(priv, "REC2")
	copy(priv[12:], k.Bytes())
	return &Keypair{&PrivateKey{priv}, &PublicKey{pub}}, nil
}

func NewSymmetricKey() (*SymmetricKey, error) {
	b := make([]byte, 32)
	if _, err := rand.Read(b); err != nil {
		return nil, err
	}
	return &SymmetricKey{b}, nil
}
