#!/bin/bash
# Offline setup: build the acv engine, prepare the harness module, warm the build cache.
set -e
export GOFLAGS=-mod=mod GOPROXY=off GOSUMDB=off GOTOOLCHAIN=local
cd /verif
cp /repo/go.sum harness/go.sum
mkdir -p bin evidence replays work
(cd engine && go build -o /verif/bin/acv .)
# warm the build cache (export data for go/packages); failures here are not fatal
(cd harness && go build github.com/cossacklabs/acra/... >/dev/null 2>&1 || true)
echo "acv setup done"
