package main

import (
	"bytes"
	"fmt"
	"go/ast"
	"go/parser"
	"go/token"
	"os/exec"
	"path/filepath"
	"strings"

	"golang.org/x/tools/go/ssa"
)

// Contracts live in a separate file and name source-level locals (loop variables, range values). When such a local is
// renamed in the working tree, the contract would name something that no longer exists. The committed version of the
// file (git HEAD) is what the contract was written against: if the function in the working tree is the committed
// function up to the names of identifiers (same sequence of syntax nodes, operators and literals), the old names are
// mapped to the new ones and the contract keeps meaning what it meant. Anything else (no git, function changed in any
// other way, inconsistent mapping) yields no mapping, and an unknown name stays an error.

type renameInfo struct {
	m    map[string]string
	done bool
}

func (p *Prog) renameMap(fn *ssa.Function) map[string]string {
	if fn == nil {
		return nil
	}
	if p.renames == nil {
		p.renames = map[*ssa.Function]*renameInfo{}
	}
	if ri, ok := p.renames[fn]; ok {
		return ri.m
	}
	ri := &renameInfo{done: true}
	p.renames[fn] = ri
	decl, _ := fn.Syntax().(*ast.FuncDecl)
	if decl == nil || fn.Prog == nil {
		return nil
	}
	file := fn.Prog.Fset.Position(decl.Pos()).Filename
	rel, err := filepath.Rel(repoDir, file)
	if err != nil || strings.HasPrefix(rel, "..") {
		return nil
	}
	cmd := exec.Command("git", "-C", repoDir, "show", "HEAD:"+filepath.ToSlash(rel))
	var out bytes.Buffer
	cmd.Stdout = &out
	if cmd.Run() != nil {
		return nil
	}
	oldFile, err := parser.ParseFile(token.NewFileSet(), rel, out.Bytes(), parser.SkipObjectResolution)
	if err != nil {
		return nil
	}
	var oldDecl *ast.FuncDecl
	for _, d := range oldFile.Decls {
		fd, ok := d.(*ast.FuncDecl)
		if !ok || fd.Name.Name != decl.Name.Name {
			continue
		}
		if recvTypeName(fd) == recvTypeName(decl) {
			oldDecl = fd
		}
	}
	if oldDecl == nil || oldDecl.Body == nil || decl.Body == nil {
		return nil
	}
	oldShape, oldIDs := shapeOf(oldDecl)
	newShape, newIDs := shapeOf(decl)
	if len(oldShape) != len(newShape) || len(oldIDs) != len(newIDs) {
		return nil
	}
	for i := range oldShape {
		if oldShape[i] != newShape[i] {
			return nil
		}
	}
	m := map[string]string{}
	rev := map[string]string{}
	for i := range oldIDs {
		o, n := oldIDs[i], newIDs[i]
		if prev, ok := m[o]; ok && prev != n {
			return nil // not a consistent renaming
		}
		if prev, ok := rev[n]; ok && prev != o {
			return nil
		}
		m[o] = n
		rev[n] = o
	}
	for o, n := range m {
		if o == n {
			delete(m, o)
		}
	}
	if len(m) == 0 {
		return nil
	}
	ri.m = m
	return m
}

func recvTypeName(fd *ast.FuncDecl) string {
	if fd.Recv == nil || len(fd.Recv.List) == 0 {
		return ""
	}
	t := fd.Recv.List[0].Type
	if s, ok := t.(*ast.StarExpr); ok {
		t = s.X
	}
	if id, ok := t.(*ast.Ident); ok {
		return id.Name
	}
	return fmt.Sprintf("%T", t)
}

// shapeOf: the sequence of syntax node kinds (with operators and literal values) of a function, identifiers abstracted,
// and the identifier names in the same order.
func shapeOf(fd *ast.FuncDecl) (shape []string, ids []string) {
	ast.Inspect(fd, func(n ast.Node) bool {
		switch x := n.(type) {
		case nil:
			shape = append(shape, ")")
			return true
		case *ast.CommentGroup, *ast.Comment:
			return false
		case *ast.Ident:
			shape = append(shape, "ID")
			ids = append(ids, x.Name)
		case *ast.BasicLit:
			shape = append(shape, "LIT:"+x.Value)
		case *ast.BinaryExpr:
			shape = append(shape, "BIN:"+x.Op.String())
		case *ast.UnaryExpr:
			shape = append(shape, "UN:"+x.Op.String())
		case *ast.AssignStmt:
			shape = append(shape, "ASSIGN:"+x.Tok.String())
		case *ast.IncDecStmt:
			shape = append(shape, "INCDEC:"+x.Tok.String())
		case *ast.BranchStmt:
			shape = append(shape, "BRANCH:"+x.Tok.String())
		case *ast.RangeStmt:
			shape = append(shape, "RANGE:"+x.Tok.String())
		case *ast.GenDecl:
			shape = append(shape, "GEN:"+x.Tok.String())
		default:
			shape = append(shape, fmt.Sprintf("%T", n))
		}
		return true
	})
	return
}
