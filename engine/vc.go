package main

// Symbolic encoding of go/ssa function bodies into SMT commands and obligations.

import (
	"fmt"
	"go/constant"
	"go/token"
	"go/types"
	"sort"
	"strings"

	"golang.org/x/tools/go/ssa"
)

// Value is the Go-side symbolic value of an SSA value.
type Value struct {
	T     Term
	Tuple []Value
	Addr  *Addr
	Fn    *ssa.Function
	Clo   *closureVal
	Bound *boundVal
}

type closureVal struct {
	fn       *ssa.Function
	bindings []Value
}

type boundVal struct {
	fn   *ssa.Function
	recv Value
}

type pathElem struct {
	field int        // struct field index, or -1
	typ   types.Type // type of the container (struct type or array type)
	idx   Term       // array index when field == -1
}

// Addr is a symbolic address: a heap cell selected by keys, plus a path into a composite value.
type Addr struct {
	heap  string
	hsort Sort
	keys  []Term // 0 keys: plain state variable (global); 1: obj; 2: region,index
	path  []pathElem
	typ   types.Type // type of the addressed location
}

type loopInfo struct {
	header  int
	body    map[int]bool
	ordinal int
	phis    []*ssa.Phi
	// set at header processing
	entryState *State
	headState  *State
	headGuard  Term
	phiVals    map[*ssa.Phi]Term
	userInvs   []Clause
	decr       *Clause
	decrAtHead Term
	specEnv    func(st *State, phiOverride map[*ssa.Phi]Value) *SpecEnv
}

type deferRec struct {
	guard Term
	call  *ssa.CallCommon
	args  []Value
	fnv   Value
	instr ssa.Instruction
	inLoop bool // registered inside a loop: may run any number of times with arguments of any iteration
}

type Frame struct {
	e       *Enc
	fn      *ssa.Function
	prefix  string
	depth   int
	stack   []*ssa.Function
	vals    map[ssa.Value]Value
	reach   map[int]Term
	out     map[int]*State
	outG    map[int]Term // guard at block end
	edge    map[[2]int]Term
	back    map[[2]int]bool
	loops   map[int]*loopInfo
	defers  []deferRec
	rets    []retRec
	params  []Value
	safety  bool
	guard   Term
	st      *State
	entry   *State
	block   *ssa.BasicBlock
	parent  *Frame
	inlTag  string
	freeVals []Value
	allocSites []allocSite
	inDefers int // >0 while the deferred calls of this frame are being executed
}

type retRec struct {
	cond Term
	vals []Value
	st   *State
}

func (f *Frame) name(s string) string { return f.prefix + s }

func (f *Frame) topFrame() *Frame {
	t := f
	for t.parent != nil {
		t = t.parent
	}
	return t
}

// ---------- constants and value lookup ----------

func (f *Frame) constVal(c *ssa.Const) Value {
	e := f.e
	t := c.Type()
	if c.Value == nil {
		return Value{T: e.zero(t)}
	}
	switch u := t.Underlying().(type) {
	case *types.Basic:
		switch {
		case u.Info()&types.IsBoolean != 0:
			return Value{T: boolConst(constant.BoolVal(c.Value))}
		case u.Info()&types.IsInteger != 0:
			w := intWidth(u)
			if i, ok := constant.Int64Val(constant.ToInt(c.Value)); ok {
				return Value{T: bvConst(uint64(i), w)}
			}
			if i, ok := constant.Uint64Val(constant.ToInt(c.Value)); ok {
				return Value{T: bvConst(i, w)}
			}
		case u.Info()&types.IsString != 0:
			return Value{T: e.strLit(constant.StringVal(c.Value))}
		case u.Info()&types.IsFloat != 0, u.Info()&types.IsComplex != 0:
			n := "fconst_" + sanitize(c.Value.ExactString())
			e.predeclare(n, fmt.Sprintf("(declare-const %s Float)", n))
			return Value{T: sym(n, SFloat)}
		}
	}
	return Value{T: e.zero(t)}
}

func (f *Frame) val(v ssa.Value) Value {
	switch x := v.(type) {
	case *ssa.Const:
		return f.constVal(x)
	case *ssa.Global:
		return Value{Addr: f.e.globalAddr(x)}
	case *ssa.Function:
		return Value{Fn: x, T: f.e.fnRef(x)}
	case *ssa.Builtin:
		return Value{}
	}
	if r, ok := f.vals[v]; ok {
		return r
	}
	// value defined in a block not yet processed (e.g. through a cut back edge): havoc
	t := f.e.havoc(f.name(v.Name()+"_undef"), f.e.sortOf(v.Type()))
	r := Value{T: t}
	f.vals[v] = r
	return r
}

func (e *Enc) fnRef(fn *ssa.Function) Term {
	n := "fn_" + sanitize(fn.String())
	e.predeclare(n, fmt.Sprintf("(declare-const %s %s)\n(assert (not (= %s %s)))", n, SRef, n, i64(0).S))
	return sym(n, SRef)
}

// term returns the SMT term of a value, materialising addresses as opaque pointers.
func (f *Frame) term(v ssa.Value) Term {
	x := f.val(v)
	return f.e.valTerm(x, v.Type())
}

func (e *Enc) valTerm(x Value, t types.Type) Term {
	if x.Addr != nil && x.T.S == "" {
		// opaque pointer for an interior address: uninterpreted function of its keys
		n := "addr_" + sanitize(x.Addr.heap)
		var sorts []string
		for _, k := range x.Addr.keys {
			sorts = append(sorts, string(k.Sort))
		}
		if len(x.Addr.path) > 0 || len(x.Addr.keys) == 0 {
			c := "gaddr_" + sanitize(x.Addr.heap) + fmt.Sprintf("_p%d", len(x.Addr.path))
			e.predeclare(c, fmt.Sprintf("(declare-const %s %s)", c, SRef))
			return sym(c, SRef)
		}
		e.predeclare(n, fmt.Sprintf("(declare-fun %s (%s) %s)", n, strings.Join(sorts, " "), SRef))
		t := app(SRef, n, x.Addr.keys...)
		if k := "nz:" + t.S; !e.predecl[k] {
			// the address of an element is never nil
			e.predecl[k] = true
			e.assume(not(eq(t, i64(0))))
		}
		return t
	}
	if x.T.S == "" {
		if x.Clo != nil {
			return e.fnRef(x.Clo.fn)
		}
		if x.Bound != nil {
			return e.fnRef(x.Bound.fn)
		}
		if len(x.Tuple) > 0 {
			return i64(0)
		}
		return e.zero(t)
	}
	return x.T
}

// ---------- addresses ----------

func (e *Enc) globalAddr(g *ssa.Global) *Addr {
	elem := g.Type().(*types.Pointer).Elem()
	name := "G_" + sanitize(g.Pkg.Pkg.Path()+"."+g.Name())
	a := &Addr{heap: name, hsort: e.sortOf(elem), typ: elem}
	init := name + "@0"
	if !e.predecl[init] {
		e.predeclare(init, fmt.Sprintf("(declare-const %s %s)", init, a.hsort))
		e.globalFacts(g, sym(init, a.hsort), elem)
	}
	return a
}

func (e *Enc) loadAddr(st *State, a *Addr) Term {
	h := e.heap(st, a.heap, a.hsort)
	var cur Term
	switch len(a.keys) {
	case 0:
		cur = h
	case 1:
		cur = sel(h, a.keys[0])
	case 2:
		cur = sel(sel(h, a.keys[0]), a.keys[1])
	}
	for _, p := range a.path {
		if p.field >= 0 {
			cur = e.structField(cur, p.typ, p.field)
		} else {
			cur = sel(cur, p.idx)
		}
	}
	return cur
}

// entryClosure assumes one instance of the closure of the entry heap: a reference (or slice region) stored at entry
// in an object that existed at entry also existed at entry. Without it a pointer loaded after the function has
// allocated something could alias the new object although the location it was loaded from has not been written.
func (e *Enc) entryClosure(entry *State, a *Addr) {
	if entry == nil || a == nil || len(a.path) != 0 || len(a.keys) == 0 || len(a.keys) > 2 || a.typ == nil {
		return
	}
	var isSlice bool
	switch a.typ.Underlying().(type) {
	case *types.Pointer, *types.Map, *types.Chan:
	case *types.Slice:
		isSlice = true
	default:
		return
	}
	v0 := e.loadAddr(entry, a)
	key := "ec:" + v0.String()
	if e.predecl[key] {
		return
	}
	e.predecl[key] = true
	r := v0
	if isSlice {
		r = sReg(v0)
	}
	e.assume(implies(ule(a.keys[0], entry.wm), ule(r, entry.wm)))
}

func (e *Enc) updPath(cur Term, path []pathElem, v Term) Term {
	if len(path) == 0 {
		return v
	}
	p := path[0]
	if p.field >= 0 {
		inner := e.structField(cur, p.typ, p.field)
		return e.structUpdate(cur, p.typ, p.field, e.updPath(inner, path[1:], v))
	}
	inner := sel(cur, p.idx)
	return store(cur, p.idx, e.updPath(inner, path[1:], v))
}

func (e *Enc) storeAddr(st *State, a *Addr, v Term) {
	h := e.heap(st, a.heap, a.hsort)
	switch len(a.keys) {
	case 0:
		e.setHeap(st, a.heap, e.updPath(h, a.path, v))
	case 1:
		old := sel(h, a.keys[0])
		e.setHeap(st, a.heap, store(h, a.keys[0], e.updPath(old, a.path, v)))
	case 2:
		row := sel(h, a.keys[0])
		old := sel(row, a.keys[1])
		e.setHeap(st, a.heap, store(h, a.keys[0], store(row, a.keys[1], e.updPath(old, a.path, v))))
	}
}

// ptrAddr turns a pointer value (to a non-struct or struct cell) into an Addr for whole-value access.
func (f *Frame) ptrAddr(v Value, ptrT types.Type) *Addr {
	if v.Addr != nil {
		return v.Addr
	}
	elem := ptrT.Underlying().(*types.Pointer).Elem()
	e := f.e
	if arr, ok := elem.Underlying().(*types.Array); ok {
		// arrays behind pointers live in the element heap: region = pointer
		hn, hs := e.elemHeapName(e.sortOf(arr.Elem()))
		return &Addr{heap: hn, hsort: hs, keys: []Term{v.T}, typ: elem}
	}
	if _, ok := elem.Underlying().(*types.Struct); ok {
		return nil // handled field-wise
	}
	hn, hs := e.cellHeapName(e.sortOf(elem))
	return &Addr{heap: hn, hsort: hs, keys: []Term{v.T}, typ: elem}
}

func (f *Frame) loadPtr(v Value, ptrT types.Type) Term {
	e := f.e
	if a := f.ptrAddr(v, ptrT); a != nil {
		return e.loadAddr(f.st, a)
	}
	elem := ptrT.Underlying().(*types.Pointer).Elem()
	st := elem.Underlying().(*types.Struct)
	fs := make([]Term, st.NumFields())
	for i := range fs {
		fs[i] = e.loadAddr(f.st, e.fieldLoc(elem, i, v.T))
	}
	return e.mkStruct(elem, fs)
}

func (f *Frame) storePtr(v Value, ptrT types.Type, nv Term) {
	e := f.e
	if a := f.ptrAddr(v, ptrT); a != nil {
		e.storeAddr(f.st, a, nv)
		return
	}
	elem := ptrT.Underlying().(*types.Pointer).Elem()
	st := elem.Underlying().(*types.Struct)
	for i := 0; i < st.NumFields(); i++ {
		e.storeAddr(f.st, e.fieldLoc(elem, i, v.T), e.structField(nv, elem, i))
	}
}

// ---------- obligations ----------

func (f *Frame) oblName(kind string, instr ssa.Instruction, fallback string) string {
	top := f.topFrame()
	txt := f.e.p.exprTextAt(instr, kind)
	if txt == "" {
		txt = fallback
	}
	n := fmt.Sprintf("%s#%s:%s", shortFuncName(top.fn), kind, txt)
	if f.parent != nil {
		n += "@" + f.fn.Name()
	}
	return n
}

// check emits a safety obligation (when enabled) and then assumes the condition.
func (f *Frame) check(kind string, instr ssa.Instruction, cond Term, fallback string) {
	if cond.isC && cond.c != 0 {
		return
	}
	if f.safety {
		o := f.e.addObl(kind, f.oblName(kind, instr, fallback), f.guard, cond, f.e.contract.Props)
		o.Pos = f.e.p.posString(instr.Pos())
		o.ReplayOK = true
	}
	f.e.assume(implies(f.guard, cond))
}

// ---------- main body encoding ----------

func (f *Frame) computeOrder() []int {
	fn := f.fn
	f.back = map[[2]int]bool{}
	for _, b := range fn.Blocks {
		for _, s := range b.Succs {
			if s.Dominates(b) {
				f.back[[2]int{b.Index, s.Index}] = true
			}
		}
	}
	visited := map[int]bool{}
	var post []int
	var dfs func(b *ssa.BasicBlock)
	dfs = func(b *ssa.BasicBlock) {
		visited[b.Index] = true
		for i := len(b.Succs) - 1; i >= 0; i-- {
			s := b.Succs[i]
			if f.back[[2]int{b.Index, s.Index}] || visited[s.Index] {
				continue
			}
			dfs(s)
		}
		post = append(post, b.Index)
	}
	dfs(fn.Blocks[0])
	if fn.Recover != nil && !visited[fn.Recover.Index] {
		// recover block: unreachable in our model (no recover modelling)
	}
	order := make([]int, 0, len(post))
	for i := len(post) - 1; i >= 0; i-- {
		order = append(order, post[i])
	}
	// loops
	f.loops = map[int]*loopInfo{}
	var headers []int
	for be := range f.back {
		h := be[1]
		li := f.loops[h]
		if li == nil {
			li = &loopInfo{header: h, body: map[int]bool{h: true}}
			f.loops[h] = li
			headers = append(headers, h)
		}
		// natural loop: nodes reaching be[0] without passing h
		stack := []int{be[0]}
		for len(stack) > 0 {
			n := stack[len(stack)-1]
			stack = stack[:len(stack)-1]
			if li.body[n] {
				continue
			}
			li.body[n] = true
			for _, p := range fn.Blocks[n].Preds {
				stack = append(stack, p.Index)
			}
		}
	}
	// loop ordinals by source position of the header (falls back to block index)
	sort.Slice(headers, func(i, j int) bool {
		pi, pj := loopPos(fn.Blocks[headers[i]]), loopPos(fn.Blocks[headers[j]])
		if pi != pj {
			return pi < pj
		}
		return headers[i] < headers[j]
	})
	for k, h := range headers {
		f.loops[h].ordinal = k
		for _, in := range fn.Blocks[h].Instrs {
			if phi, ok := in.(*ssa.Phi); ok {
				f.loops[h].phis = append(f.loops[h].phis, phi)
			}
		}
	}
	return order
}

func loopPos(b *ssa.BasicBlock) token.Pos {
	best := token.NoPos
	for _, in := range b.Instrs {
		if p := in.Pos(); p != token.NoPos && (best == token.NoPos || p < best) {
			best = p
		}
	}
	if best == token.NoPos {
		// look into the body successors
		for _, s := range b.Succs {
			for _, in := range s.Instrs {
				if p := in.Pos(); p != token.NoPos && (best == token.NoPos || p < best) {
					best = p
				}
			}
		}
	}
	return best
}

// run encodes the function body. Returns merged results, final state and the guard of normal return.
func (f *Frame) run(entryGuard Term, st *State, args []Value) ([]Value, *State, Term) {
	e := f.e
	fn := f.fn
	f.vals = map[ssa.Value]Value{}
	f.reach = map[int]Term{}
	f.out = map[int]*State{}
	f.outG = map[int]Term{}
	f.edge = map[[2]int]Term{}
	f.entry = st.clone()
	for i, p := range fn.Params {
		f.vals[p] = args[i]
	}
	for i, fv := range fn.FreeVars {
		if i < len(f.freeVals) {
			f.vals[fv] = f.freeVals[i]
		}
	}
	order := f.computeOrder()
	for _, bi := range order {
		b := fn.Blocks[bi]
		f.block = b
		// incoming edges
		var conds []Term
		var sts []*State
		var preds []*ssa.BasicBlock
		if bi == 0 {
			conds = append(conds, entryGuard)
			sts = append(sts, st)
			preds = append(preds, nil)
		}
		for _, p := range b.Preds {
			if f.back[[2]int{p.Index, bi}] {
				continue
			}
			c, ok := f.edge[[2]int{p.Index, bi}]
			if !ok {
				continue // predecessor unreachable / not processed
			}
			conds = append(conds, c)
			sts = append(sts, f.out[p.Index])
			preds = append(preds, p)
		}
		if len(conds) == 0 {
			continue
		}
		r := e.defineBool(f.name(fmt.Sprintf("r%d", bi)), or(conds...))
		f.reach[bi] = r
		// loop latch duplication: a side-effect-free block that only jumps back to a loop header is encoded once
		// per predecessor (no merge), so that the invariant-preserved obligations see unmerged values
		if f.isPureLatch(b) && len(preds) >= 2 && f.loops[bi] == nil {
			for k, p := range preds {
				if p == nil {
					continue
				}
				f.guard = conds[k]
				f.st = sts[k].clone()
				for _, in := range b.Instrs {
					if phi, ok := in.(*ssa.Phi); ok {
						for ei, bp := range b.Preds {
							if bp == p {
								f.vals[phi] = f.val(phi.Edges[ei])
								break
							}
						}
						continue
					}
					if f.instr(in) {
						break
					}
				}
			}
			f.out[bi] = sts[0]
			f.outG[bi] = r
			continue
		}
		f.guard = r
		f.st = e.mergeStates(f.name(fmt.Sprintf("b%d", bi)), conds, sts)
		li := f.loops[bi]
		// phis
		for _, in := range b.Instrs {
			phi, ok := in.(*ssa.Phi)
			if !ok {
				break
			}
			var pv []Value
			var pc []Term
			for k, p := range preds {
				if p == nil {
					continue
				}
				// find edge index of p in b.Preds
				for ei, bp := range b.Preds {
					if bp == p && !f.back[[2]int{p.Index, bi}] {
						pv = append(pv, f.val(phi.Edges[ei]))
						pc = append(pc, conds[k])
						break
					}
				}
			}
			f.vals[phi] = f.mergePhi(phi, pc, pv)
		}
		if li != nil {
			f.loopHeader(li)
		}
		// instructions
		dead := false
		for _, in := range b.Instrs {
			if _, ok := in.(*ssa.Phi); ok {
				continue
			}
			if dead {
				break
			}
			dead = f.instr(in)
		}
		f.out[bi] = f.st
		f.outG[bi] = f.guard
	}
	// merge returns
	if len(f.rets) == 0 {
		return nil, st, tFalse
	}
	var conds []Term
	var sts []*State
	for _, r := range f.rets {
		conds = append(conds, r.cond)
		sts = append(sts, r.st)
	}
	rg := e.defineBool(f.name("ret"), or(conds...))
	final := e.mergeStates(f.name("ret"), conds, sts)
	nres := len(f.rets[0].vals)
	results := make([]Value, nres)
	for i := 0; i < nres; i++ {
		var vs []Value
		for _, r := range f.rets {
			vs = append(vs, r.vals[i])
		}
		results[i] = f.mergeVals(f.name(fmt.Sprintf("res%d", i)), conds, vs, fn.Signature.Results().At(i).Type())
	}
	return results, final, rg
}

// isPureLatch: block consisting of phis and pure arithmetic, ending in a jump along a back edge.
func (f *Frame) isPureLatch(b *ssa.BasicBlock) bool {
	if len(b.Succs) != 1 || !f.back[[2]int{b.Index, b.Succs[0].Index}] {
		return false
	}
	for _, in := range b.Instrs {
		switch x := in.(type) {
		case *ssa.Phi, *ssa.DebugRef, *ssa.Jump, *ssa.Convert, *ssa.ChangeType:
		case *ssa.BinOp:
			if x.Op == token.QUO || x.Op == token.REM {
				return false
			}
		default:
			return false
		}
	}
	// values defined here must not be used outside the block (other than by the header's phis)
	for _, in := range b.Instrs {
		v, ok := in.(ssa.Value)
		if !ok {
			continue
		}
		if refs := v.Referrers(); refs != nil {
			for _, r := range *refs {
				if r.Block() != b {
					if _, isPhi := r.(*ssa.Phi); isPhi && r.Block() == b.Succs[0] {
						continue
					}
					return false
				}
			}
		}
	}
	return true
}

func (e *Enc) defineBool(name string, t Term) Term {
	if t.isC {
		return t
	}
	n := e.fresh(name)
	e.emit(fmt.Sprintf("(define-fun %s () Bool %s)", n, t.S))
	return sym(n, SBool)
}

func (f *Frame) mergePhi(phi *ssa.Phi, conds []Term, vs []Value) Value {
	return f.mergeVals(f.name(phi.Name()), conds, vs, phi.Type())
}

func (f *Frame) mergeVals(name string, conds []Term, vs []Value, t types.Type) Value {
	e := f.e
	if len(vs) == 0 {
		return Value{T: e.havoc(name, e.sortOf(t))}
	}
	if len(vs) == 1 {
		return vs[0]
	}
	if _, ok := t.(*types.Tuple); ok {
		return vs[0]
	}
	// all same closure/function?
	allSame := true
	for _, v := range vs {
		if v.T.S != vs[0].T.S || v.Addr != vs[0].Addr || v.Clo != vs[0].Clo || v.Fn != vs[0].Fn {
			allSame = false
		}
	}
	if allSame {
		return vs[0]
	}
	terms := make([]Term, len(vs))
	for i, v := range vs {
		terms[i] = e.valTerm(v, t)
	}
	acc := terms[len(terms)-1]
	for i := len(terms) - 2; i >= 0; i-- {
		acc = ite(conds[i], terms[i], acc)
	}
	return Value{T: e.define(name, acc)}
}

// instr encodes one instruction; returns true if control does not continue in this block.
func (f *Frame) instr(in ssa.Instruction) bool {
	e := f.e
	switch x := in.(type) {
	case *ssa.DebugRef:
		return false
	case *ssa.Alloc:
		f.vals[x] = f.alloc(x)
	case *ssa.BinOp:
		f.vals[x] = Value{T: f.binop(x)}
	case *ssa.UnOp:
		f.vals[x] = f.unop(x)
	case *ssa.Call:
		f.vals[x] = f.call(x, x.Common(), x.Type())
	case *ssa.ChangeInterface:
		f.vals[x] = f.val(x.X)
	case *ssa.ChangeType:
		v := f.val(x.X)
		if v.Addr != nil || v.Fn != nil || v.Clo != nil {
			f.vals[x] = v
		} else {
			t := v.T
			if want := e.sortOf(x.Type()); want != t.Sort {
				t = e.havoc(f.name(x.Name()), want)
			}
			f.vals[x] = Value{T: t}
		}
	case *ssa.Convert:
		f.vals[x] = Value{T: f.convert(x)}
	case *ssa.MultiConvert:
		f.vals[x] = Value{T: e.havoc(f.name(x.Name()), e.sortOf(x.Type()))}
	case *ssa.SliceToArrayPointer:
		s := f.term(x.X)
		n := x.Type().Underlying().(*types.Pointer).Elem().Underlying().(*types.Array).Len()
		f.check("slice", x, sle(i64(n), sLen(s)), "slice-to-array")
		f.vals[x] = Value{T: e.havoc(f.name(x.Name()), SRef)}
		e.note("SliceToArrayPointer modelled as fresh pointer")
	case *ssa.Defer:
		f.deferInstr(x)
	case *ssa.Extract:
		tv := f.val(x.Tuple)
		if x.Index < len(tv.Tuple) {
			f.vals[x] = tv.Tuple[x.Index]
		} else {
			f.vals[x] = Value{T: e.havoc(f.name(x.Name()), e.sortOf(x.Type()))}
		}
	case *ssa.Field:
		sv := f.term(x.X)
		f.vals[x] = Value{T: e.define(f.name(x.Name()), e.structField(sv, x.X.Type(), x.Field))}
	case *ssa.FieldAddr:
		f.vals[x] = f.fieldAddr(x)
	case *ssa.Go:
		e.note("go statement not modelled (A8)")
	case *ssa.If:
		c := f.term(x.Cond)
		b := x.Block()
		tg := e.defineBool(f.name(fmt.Sprintf("e%d_%d", b.Index, b.Succs[0].Index)), and(f.guard, c))
		fg := e.defineBool(f.name(fmt.Sprintf("e%d_%d", b.Index, b.Succs[1].Index)), and(f.guard, not(c)))
		if b.Succs[0] == b.Succs[1] {
			f.setEdge(b, b.Succs[0], f.guard)
		} else {
			f.setEdge(b, b.Succs[0], tg)
			f.setEdge(b, b.Succs[1], fg)
		}
		return true
	case *ssa.Index:
		f.vals[x] = Value{T: f.indexVal(x)}
	case *ssa.IndexAddr:
		f.vals[x] = f.indexAddr(x)
	case *ssa.Jump:
		b := x.Block()
		f.setEdge(b, b.Succs[0], f.guard)
		return true
	case *ssa.Lookup:
		f.vals[x] = f.lookup(x)
	case *ssa.MakeChan:
		f.vals[x] = Value{T: e.alloc(f.st, f.name(x.Name()))}
	case *ssa.MakeClosure:
		fn := x.Fn.(*ssa.Function)
		cv := &closureVal{fn: fn}
		for _, b := range x.Bindings {
			cv.bindings = append(cv.bindings, f.val(b))
		}
		f.vals[x] = Value{Clo: cv}
	case *ssa.MakeInterface:
		f.vals[x] = Value{T: e.box(x.X.Type(), f.term(x.X))}
	case *ssa.MakeMap:
		m := e.alloc(f.st, f.name(x.Name()))
		mt := x.Type().Underlying().(*types.Map)
		pn, ps, _, _ := e.mapHeaps(mt)
		ph := e.heap(f.st, pn, ps)
		emptyP := Term{S: fmt.Sprintf("((as const %s) false)", arrayElem(ps)), Sort: arrayElem(ps)}
		e.setHeap(f.st, pn, store(ph, m, emptyP))
		f.vals[x] = Value{T: m}
	case *ssa.MakeSlice:
		f.vals[x] = Value{T: f.makeSlice(x)}
	case *ssa.MapUpdate:
		f.mapUpdate(x)
	case *ssa.Next:
		f.vals[x] = f.next(x)
	case *ssa.Panic:
		if f.safety {
			o := e.addObl("explicit-panic", f.oblName("explicit-panic", x, "panic"), f.guard, tFalse, e.contract.Props)
			o.Pos = e.p.posString(x.Pos())
			o.ReplayOK = true
		}
		return true
	case *ssa.Phi:
	case *ssa.Range:
		f.vals[x] = Value{T: e.havoc(f.name(x.Name()), SRef)}
	case *ssa.Return:
		rv := make([]Value, len(x.Results))
		for i, r := range x.Results {
			rv[i] = f.val(r)
			if rv[i].T.S == "" {
				rv[i].T = e.valTerm(rv[i], r.Type())
			}
		}
		f.rets = append(f.rets, retRec{cond: f.guard, vals: rv, st: f.st})
		if f.parent == nil && e.contract != nil && len(e.contract.Returns) > 0 {
			f.returnAsserts(x, rv)
		}
		return true
	case *ssa.RunDefers:
		f.runDefers(x)
	case *ssa.Select:
		e.note("select not modelled (A8)")
		f.vals[x] = f.havocTyped(x.Name(), x.Type())
	case *ssa.Send:
		e.note("channel send not modelled (A8)")
	case *ssa.Slice:
		f.vals[x] = Value{T: f.sliceInstr(x)}
	case *ssa.Store:
		f.storeInstr(x)
	case *ssa.TypeAssert:
		f.vals[x] = f.typeAssert(x)
	default:
		e.note(fmt.Sprintf("unmodelled instruction %T", in))
		if v, ok := in.(ssa.Value); ok {
			f.vals[v] = f.havocTyped(v.Name(), v.Type())
		}
	}
	return false
}

func (f *Frame) setEdge(from, to *ssa.BasicBlock, c Term) {
	key := [2]int{from.Index, to.Index}
	if f.back[key] {
		f.backEdge(from, to, c)
		return
	}
	f.exitEdge(from, to, c)
	if old, ok := f.edge[key]; ok {
		c = or(old, c)
	}
	f.edge[key] = c
}

func (f *Frame) havocTyped(name string, t types.Type) Value {
	e := f.e
	if tup, ok := t.(*types.Tuple); ok {
		v := Value{}
		for i := 0; i < tup.Len(); i++ {
			v.Tuple = append(v.Tuple, f.havocTyped(fmt.Sprintf("%s_%d", name, i), tup.At(i).Type()))
		}
		return v
	}
	tm := e.havoc(f.name(name), e.sortOf(t))
	e.assumeExisting(f.st, tTrue, tm, t)
	return Value{T: tm}
}

func (f *Frame) alloc(x *ssa.Alloc) Value {
	e := f.e
	elem := x.Type().Underlying().(*types.Pointer).Elem()
	obj := e.alloc(f.st, f.name(x.Name()))
	switch u := elem.Underlying().(type) {
	case *types.Struct:
		for i := 0; i < u.NumFields(); i++ {
			e.storeAddr(f.st, e.fieldLoc(elem, i, obj), e.zero(u.Field(i).Type()))
		}
	case *types.Array:
		hn, hs := e.elemHeapName(e.sortOf(u.Elem()))
		e.setHeap(f.st, hn, store(e.heap(f.st, hn, hs), obj, e.zero(elem)))
	default:
		hn, hs := e.cellHeapName(e.sortOf(elem))
		e.setHeap(f.st, hn, store(e.heap(f.st, hn, hs), obj, e.zero(elem)))
	}
	return Value{T: obj}
}

func (f *Frame) fieldAddr(x *ssa.FieldAddr) Value {
	e := f.e
	base := f.val(x.X)
	pt := x.X.Type().Underlying().(*types.Pointer)
	st := pt.Elem()
	ftyp := st.Underlying().(*types.Struct).Field(x.Field).Type()
	if base.Addr != nil {
		// interior address: extend the path
		a := *base.Addr
		a.path = append(append([]pathElem{}, a.path...), pathElem{field: x.Field, typ: st})
		a.typ = ftyp
		return Value{Addr: &a}
	}
	f.nilCheck(x, x.X, base.T)
	return Value{Addr: e.fieldLoc(st, x.Field, base.T)}
}

// nilCheck emits a nil-deref obligation unless the pointer is a parameter/receiver or loaded from one (A12).
func (f *Frame) nilCheck(in ssa.Instruction, pv ssa.Value, t Term) {
	if f.trustedNonNil(pv, 0) {
		return
	}
	f.check("nil-deref", in, not(eq(t, i64(0))), pv.Name())
}

func (f *Frame) trustedNonNil(v ssa.Value, depth int) bool {
	if depth > 6 {
		return false
	}
	switch x := v.(type) {
	case *ssa.Parameter, *ssa.FreeVar, *ssa.Alloc, *ssa.Global, *ssa.MakeMap, *ssa.MakeChan, *ssa.MakeClosure, *ssa.FieldAddr, *ssa.IndexAddr, *ssa.Function:
		return true
	case *ssa.UnOp:
		if x.Op == token.MUL {
			// loaded from a field of a trusted pointer (collaborator fields, A12)
			switch a := x.X.(type) {
			case *ssa.FieldAddr:
				return f.trustedNonNil(a.X, depth+1)
			case *ssa.Global, *ssa.FreeVar:
				return true
			case *ssa.Alloc:
				return false
			}
		}
	case *ssa.ChangeType:
		return f.trustedNonNil(x.X, depth+1)
	case *ssa.Phi:
		for _, ed := range x.Edges {
			if ed == v {
				continue
			}
			if !f.trustedNonNil(ed, depth+1) {
				return false
			}
		}
		return true
	}
	return false
}

func (f *Frame) indexAddr(x *ssa.IndexAddr) Value {
	e := f.e
	idx := f.intTo64(x.Index)
	switch t := x.X.Type().Underlying().(type) {
	case *types.Slice:
		s := f.term(x.X)
		f.check("index", x, and(sle(i64(0), idx), slt(idx, sLen(s))), x.X.Name()+"[...]")
		hn, hs := e.elemHeapName(e.sortOf(t.Elem()))
		return Value{Addr: &Addr{heap: hn, hsort: hs, keys: []Term{sReg(s), e.define(f.name("ix"), bvAdd(sOff(s), idx))}, typ: t.Elem()}}
	case *types.Pointer:
		arr := t.Elem().Underlying().(*types.Array)
		base := f.val(x.X)
		f.check("index", x, and(sle(i64(0), idx), slt(idx, i64(arr.Len()))), x.X.Name()+"[...]")
		if base.Addr != nil {
			a := *base.Addr
			if len(a.keys) == 1 && len(a.path) == 0 && strings.HasPrefix(a.heap, "HE_") {
				a.keys = append(append([]Term{}, a.keys...), idx)
				a.typ = arr.Elem()
				return Value{Addr: &a}
			}
			a.path = append(append([]pathElem{}, a.path...), pathElem{field: -1, typ: t.Elem(), idx: idx})
			a.typ = arr.Elem()
			return Value{Addr: &a}
		}
		hn, hs := e.elemHeapName(e.sortOf(arr.Elem()))
		return Value{Addr: &Addr{heap: hn, hsort: hs, keys: []Term{base.T, idx}, typ: arr.Elem()}}
	}
	e.note("IndexAddr on unsupported type")
	return Value{T: e.havoc(f.name(x.Name()), SRef)}
}

func (f *Frame) indexVal(x *ssa.Index) Term {
	e := f.e
	idx := f.intTo64(x.Index)
	switch t := x.X.Type().Underlying().(type) {
	case *types.Array:
		f.check("index", x, and(sle(i64(0), idx), slt(idx, i64(t.Len()))), x.X.Name()+"[...]")
		return e.define(f.name(x.Name()), sel(f.term(x.X), idx))
	case *types.Basic: // string
		s := f.term(x.X)
		f.check("index", x, and(sle(i64(0), idx), slt(idx, app(SBV64, "strlen", s))), x.X.Name()+"[...]")
		return app(SBV8, "strat", s, idx)
	}
	return e.havoc(f.name(x.Name()), e.sortOf(x.Type()))
}

// intTo64 converts an integer-typed SSA value to a 64-bit index following Go's index rules.
func (f *Frame) intTo64(v ssa.Value) Term {
	t := f.term(v)
	return conv(t, 64, isSigned(v.Type()))
}

func (f *Frame) storeInstr(x *ssa.Store) {
	e := f.e
	av := f.val(x.Addr)
	nv := f.val(x.Val)
	nt := e.valTerm(nv, x.Val.Type())
	if av.Addr == nil {
		f.nilCheck(x, x.Addr, av.T)
	}
	// remember closures / functions stored in cells so that later loads can inline them
	f.storePtr(av, x.Addr.Type(), nt)
	if (nv.Clo != nil || nv.Fn != nil) && av.Addr == nil {
		if a, ok := x.Addr.(*ssa.Alloc); ok {
			f.topFrame().cloCells()[a] = nv
		}
	}
}

func (f *Frame) cloCells() map[*ssa.Alloc]Value {
	if f.e.cloCellMap == nil {
		f.e.cloCellMap = map[*Frame]map[*ssa.Alloc]Value{}
	}
	m := f.e.cloCellMap[f]
	if m == nil {
		m = map[*ssa.Alloc]Value{}
		f.e.cloCellMap[f] = m
	}
	return m
}

func (f *Frame) unop(x *ssa.UnOp) Value {
	e := f.e
	switch x.Op {
	case token.MUL: // load
		av := f.val(x.X)
		if av.Addr == nil {
			f.nilCheck(x, x.X, av.T)
		}
		raw := f.loadPtr(av, x.X.Type())
		if a := f.ptrAddr(av, x.X.Type()); a != nil {
			e.entryClosure(f.topFrame().entry, a)
		}
		t := e.define(f.name(x.Name()), raw)
		if n, ok := e.globLen[raw.S]; ok {
			// byte-slice literal global still holding its initial value: make the length syntactically constant
			t = mkSlice(sReg(t), sOff(t), i64(int64(n)), sCap(t))
		}
		if f.trustedLoad(x) {
			e.assumeExisting(f.st, f.guard, t, x.Type())
		} else {
			e.assumeExisting(f.st, f.guard, t, x.Type())
		}
		v := Value{T: t}
		if a, ok := x.X.(*ssa.Alloc); ok {
			if cv, ok := f.topFrame().cloCells()[a]; ok {
				v.Clo, v.Fn = cv.Clo, cv.Fn
			}
		}
		return v
	case token.NOT:
		return Value{T: not(f.term(x.X))}
	case token.SUB:
		t := f.term(x.X)
		if t.Sort == SFloat {
			return Value{T: e.havoc(f.name(x.Name()), SFloat)}
		}
		return Value{T: bvSub(bvConst(0, t.Sort.bvWidth()), t)}
	case token.XOR:
		t := f.term(x.X)
		return Value{T: app(t.Sort, "bvnot", t)}
	case token.ARROW:
		e.note("channel receive modelled as havoc (A8)")
		return f.havocTyped(x.Name(), x.Type())
	}
	return f.havocTyped(x.Name(), x.Type())
}

func (f *Frame) trustedLoad(x *ssa.UnOp) bool { return true }

func (f *Frame) binop(x *ssa.BinOp) Term {
	e := f.e
	a, b := f.term(x.X), f.term(x.Y)
	xt := x.X.Type()
	name := f.name(x.Name())
	switch x.Op {
	case token.EQL, token.NEQ:
		var r Term
		if a.Sort != b.Sort {
			r = e.havoc(name, SBool)
		} else if a.Sort == SSlice {
			// only comparison with nil is legal for slices
			if isNilConst(x.Y) {
				r = eq(sReg(a), i64(0))
			} else {
				r = eq(sReg(b), i64(0))
			}
		} else {
			r = eq(a, b)
		}
		if x.Op == token.NEQ {
			r = not(r)
		}
		return r
	}
	if a.Sort == SStr {
		switch x.Op {
		case token.ADD:
			r := e.define(name, app(SStr, "strcat", a, b))
			e.assume(eq(app(SBV64, "strlen", r), bvAdd(app(SBV64, "strlen", a), app(SBV64, "strlen", b))))
			return r
		default:
			return e.havoc(name, SBool)
		}
	}
	if a.Sort == SFloat {
		return e.havoc(name, e.sortOf(x.Type()))
	}
	w := a.Sort.bvWidth()
	if w == 0 {
		return e.havoc(name, e.sortOf(x.Type()))
	}
	signed := isSigned(xt)
	switch x.Op {
	case token.ADD:
		return e.define(name, bvBin("bvadd", a, b))
	case token.SUB:
		return e.define(name, bvBin("bvsub", a, b))
	case token.MUL:
		return e.define(name, bvBin("bvmul", a, b))
	case token.QUO, token.REM:
		f.check("div-zero", x, not(eq(b, bvConst(0, w))), "division")
		op := map[bool]map[token.Token]string{true: {token.QUO: "bvsdiv", token.REM: "bvsrem"}, false: {token.QUO: "bvudiv", token.REM: "bvurem"}}[signed][x.Op]
		return e.define(name, app(a.Sort, op, a, b))
	case token.AND:
		return e.define(name, bvBin("bvand", a, b))
	case token.OR:
		return e.define(name, bvBin("bvor", a, b))
	case token.XOR:
		return e.define(name, bvBin("bvxor", a, b))
	case token.AND_NOT:
		return e.define(name, bvBin("bvand", a, app(b.Sort, "bvnot", b)))
	case token.SHL, token.SHR:
		return e.define(name, shiftTerm(x.Op, a, b, signed, isSigned(x.Y.Type())))
	case token.LSS, token.LEQ, token.GTR, token.GEQ:
		ops := map[token.Token][2]string{token.LSS: {"bvult", "bvslt"}, token.LEQ: {"bvule", "bvsle"}, token.GTR: {"bvugt", "bvsgt"}, token.GEQ: {"bvuge", "bvsge"}}
		op := ops[x.Op][0]
		if signed {
			op = ops[x.Op][1]
		}
		return bvCmp(op, a, b)
	}
	return e.havoc(name, e.sortOf(x.Type()))
}

func shiftTerm(op token.Token, a, b Term, signedX, signedY bool) Term {
	w := a.Sort.bvWidth()
	bw := b.Sort.bvWidth()
	var cnt Term
	var tooBig Term = tFalse
	if bw <= w {
		cnt = conv(b, w, false)
		tooBig = tFalse
	} else {
		cnt = conv(b, w, false)
		tooBig = bvCmp("bvuge", b, bvConst(uint64(w), bw))
	}
	if a.isC && cnt.isC && !tooBig.isC {
		tooBig = tFalse
	}
	var sh, over Term
	switch {
	case op == token.SHL:
		if a.isC && cnt.isC {
			if cnt.c >= uint64(w) {
				sh = bvConst(0, w)
			} else {
				sh = bvConst(a.c<<cnt.c, w)
			}
		} else {
			sh = app(a.Sort, "bvshl", a, cnt)
		}
		over = bvConst(0, w)
	case signedX:
		sh = app(a.Sort, "bvashr", a, cnt)
		over = app(a.Sort, "bvashr", a, bvConst(uint64(w-1), w))
	default:
		if a.isC && cnt.isC {
			if cnt.c >= uint64(w) {
				sh = bvConst(0, w)
			} else {
				sh = bvConst(a.c>>cnt.c, w)
			}
		} else {
			sh = app(a.Sort, "bvlshr", a, cnt)
		}
		over = bvConst(0, w)
	}
	return ite(tooBig, over, sh)
}

func isNilConst(v ssa.Value) bool {
	c, ok := v.(*ssa.Const)
	return ok && c.Value == nil
}

func (f *Frame) convert(x *ssa.Convert) Term {
	e := f.e
	from, to := x.X.Type(), x.Type()
	a := f.term(x.X)
	name := f.name(x.Name())
	fs, ts := e.sortOf(from), e.sortOf(to)
	if fs.bvWidth() > 0 && ts.bvWidth() > 0 && isInteger(from) && isInteger(to) {
		return e.define(name, conv(a, ts.bvWidth(), isSigned(from)))
	}
	// string <-> []byte
	if ts == SStr && fs == SSlice {
		return f.bytesToStr(name, a, from)
	}
	if ts == SSlice && fs == SStr {
		return f.strToBytes(name, a, to)
	}
	if ts == SStr && fs.bvWidth() > 0 {
		r := e.havoc(name, SStr)
		e.assume(and(sle(i64(1), app(SBV64, "strlen", r)), sle(app(SBV64, "strlen", r), i64(4))))
		return r
	}
	if fs == ts && fs != SStr && fs != SSlice {
		if _, isPtr := to.Underlying().(*types.Pointer); isPtr || fs == SRef {
			return a
		}
	}
	return e.havoc(name, ts)
}

func (f *Frame) bytesToStr(name string, s Term, st types.Type) Term {
	e := f.e
	sl, ok := st.Underlying().(*types.Slice)
	if !ok || e.sortOf(sl.Elem()) != SBV8 {
		return e.havoc(name, SStr)
	}
	hn, hs := e.elemHeapName(SBV8)
	h := e.heap(f.st, hn, hs)
	e.predeclare("strof", fmt.Sprintf("(declare-fun strof (%s (_ BitVec 64) (_ BitVec 64)) Str)", arraySort(SBV64, SBV8)))
	r := e.define(name, app(SStr, "strof", sel(h, sReg(s)), sOff(s), sLen(s)))
	e.assume(eq(app(SBV64, "strlen", r), sLen(s)))
	// content: strat(r, i) = mem[off+i]
	q := e.qvar()
	e.assume(Term{S: fmt.Sprintf("(forall ((%s (_ BitVec 64))) (! (=> (and (bvsle #x0000000000000000 %s) (bvslt %s %s)) (= (strat %s %s) (select %s (bvadd %s %s)))) :pattern ((strat %s %s))))",
		q, q, q, sLen(s).S, r.S, q, sel(h, sReg(s)).S, sOff(s).S, q, r.S, q), Sort: SBool})
	return r
}

func (e *Enc) qvar() string {
	e.quantN++
	return fmt.Sprintf("q%d", e.quantN)
}

func (f *Frame) strToBytes(name string, s Term, to types.Type) Term {
	e := f.e
	sl, ok := to.Underlying().(*types.Slice)
	if !ok || e.sortOf(sl.Elem()) != SBV8 {
		r := e.havoc(name, SSlice)
		e.assume(e.sliceWF(r))
		return r
	}
	reg := e.alloc(f.st, name+"_reg")
	ln := app(SBV64, "strlen", s)
	cp := e.havoc(name+"_cap", SBV64)
	r := mkSlice(reg, i64(0), ln, cp)
	e.assume(e.sliceWF(r))
	e.assume(sle(i64(0), ln))
	hn, hs := e.elemHeapName(SBV8)
	arr := e.havoc(name+"_arr", arraySort(SBV64, SBV8))
	q := e.qvar()
	e.assume(Term{S: fmt.Sprintf("(forall ((%s (_ BitVec 64))) (! (=> (and (bvsle #x0000000000000000 %s) (bvslt %s %s)) (= (select %s %s) (strat %s %s))) :pattern ((select %s %s))))",
		q, q, q, ln.S, arr.S, q, s.S, q, arr.S, q), Sort: SBool})
	e.setHeap(f.st, hn, store(e.heap(f.st, hn, hs), reg, arr))
	return r
}

func (f *Frame) makeSlice(x *ssa.MakeSlice) Term {
	e := f.e
	ln := f.intTo64(x.Len)
	cp := f.intTo64(x.Cap)
	el := x.Type().Underlying().(*types.Slice).Elem()
	f.check("make-neg", x, and(sle(i64(0), ln), sle(ln, cp), sle(cp, i64(1<<48))), "make")
	f.topFrame().allocSites = append(f.topFrame().allocSites, allocSite{instr: x, size: cp, guard: f.guard, inl: f})
	reg := e.alloc(f.st, f.name(x.Name()+"_reg"))
	hn, hs := e.elemHeapName(e.sortOf(el))
	zeroArr := e.constArray(arraySort(SBV64, e.sortOf(el)), e.zero(el))
	e.setHeap(f.st, hn, store(e.heap(f.st, hn, hs), reg, zeroArr))
	return e.define(f.name(x.Name()), mkSlice(reg, i64(0), ln, cp))
}

func (f *Frame) sliceInstr(x *ssa.Slice) Term {
	e := f.e
	name := f.name(x.Name())
	get := func(v ssa.Value, def Term) Term {
		if v == nil {
			return def
		}
		return f.intTo64(v)
	}
	switch t := x.X.Type().Underlying().(type) {
	case *types.Slice:
		s := f.term(x.X)
		lo := get(x.Low, i64(0))
		hi := get(x.High, sLen(s))
		mx := get(x.Max, sCap(s))
		f.check("slice", x, and(sle(i64(0), lo), sle(lo, hi), sle(hi, mx), sle(mx, sCap(s))), x.X.Name()+"[:]")
		if f.parent == nil && e.contract != nil && e.contract.Opts["cutoffsets"] != "" && x.Low != nil && x.High == nil && x.Max == nil {
			// "opt cutoffsets yes": once s[lo:] has been checked, lo is only remembered as "some offset within s".
			// A running position that is the sum of many decoded lengths makes every later bounds obligation depend
			// on the whole chain of additions, which none of the solvers decides; forgetting how the offset was
			// computed keeps each step local. Sound: the new value is constrained by a consequence of the check only.
			cut := false
			if bo, ok := x.Low.(*ssa.BinOp); ok && bo.Op == token.ADD {
				// only offsets of the form a + b with both parts computed (a running position plus a decoded
				// length); position + constant keeps its definition, later checks usually need it
				_, c1 := bo.X.(*ssa.Const)
				_, c2 := bo.Y.(*ssa.Const)
				cut = !c1 && !c2
			}
			if cut {
				c := e.havoc(f.name(x.Low.Name()+"_cut"), SBV64)
				e.assume(implies(f.guard, and(sle(i64(0), c), sle(c, sLen(s)))))
				w := e.sortOf(x.Low.Type()).bvWidth()
				if w == 64 {
					// on the paths that come through this check the value is the abstract offset, elsewhere unchanged
					old := f.val(x.Low).T
					f.vals[x.Low] = Value{T: e.define(f.name(x.Low.Name()+"_cutv"), ite(f.guard, c, old))}
					lo = c
				}
			}
		}
		return e.define(name, mkSlice(sReg(s), bvAdd(sOff(s), lo), bvSub(hi, lo), bvSub(mx, lo)))
	case *types.Basic: // string
		s := f.term(x.X)
		sl := app(SBV64, "strlen", s)
		lo := get(x.Low, i64(0))
		hi := get(x.High, sl)
		f.check("slice", x, and(sle(i64(0), lo), sle(lo, hi), sle(hi, sl)), x.X.Name()+"[:]")
		e.predeclare("strsub", "(declare-fun strsub (Str (_ BitVec 64) (_ BitVec 64)) Str)")
		r := e.define(name, app(SStr, "strsub", s, lo, hi))
		e.assume(implies(f.guard, eq(app(SBV64, "strlen", r), bvSub(hi, lo))))
		return r
	case *types.Pointer:
		arr := t.Elem().Underlying().(*types.Array)
		n := i64(arr.Len())
		base := f.val(x.X)
		lo := get(x.Low, i64(0))
		hi := get(x.High, n)
		mx := get(x.Max, n)
		f.check("slice", x, and(sle(i64(0), lo), sle(lo, hi), sle(hi, mx), sle(mx, n)), x.X.Name()+"[:]")
		var reg Term
		if base.Addr != nil {
			if len(base.Addr.keys) == 1 && len(base.Addr.path) == 0 && strings.HasPrefix(base.Addr.heap, "HE_") {
				reg = base.Addr.keys[0]
			} else {
				// array embedded in a struct: slice aliases are not tracked; fresh region with copied content
				e.note("slice of array embedded in struct modelled as a copy")
				reg = e.alloc(f.st, name+"_reg")
				hn, hs := e.elemHeapName(e.sortOf(arr.Elem()))
				e.setHeap(f.st, hn, store(e.heap(f.st, hn, hs), reg, e.loadAddr(f.st, base.Addr)))
			}
		} else {
			f.nilCheck(x, x.X, base.T)
			reg = base.T
		}
		return e.define(name, mkSlice(reg, lo, bvSub(hi, lo), bvSub(mx, lo)))
	}
	return e.havoc(name, e.sortOf(x.Type()))
}

func (f *Frame) typeAssert(x *ssa.TypeAssert) Value {
	e := f.e
	iv := f.term(x.X)
	name := f.name(x.Name())
	var ok, val Term
	if _, isIface := x.AssertedType.Underlying().(*types.Interface); isIface {
		// interface-to-interface: dynamic type implements the target iff ... (unknown): fresh bool,
		// but a nil interface never satisfies the assertion.
		e.predeclare("implements", "(declare-fun implements ((_ BitVec 64) (_ BitVec 64)) Bool)")
		okT := app(SBool, "implements", app(SBV64, "itag", iv), e.typeTag(x.AssertedType))
		ok = e.defineBool(name+"_ok", and(not(eq(iv, sym("inil", SIface))), okT))
		val = iv
	} else {
		ok = e.defineBool(name+"_ok", and(not(eq(iv, sym("inil", SIface))), eq(app(SBV64, "itag", iv), e.typeTag(x.AssertedType))))
		val = e.define(name, e.unbox(x.AssertedType, iv))
	}
	if x.CommaOk {
		zv := e.zero(x.AssertedType)
		rv := Value{T: e.define(name+"_v", ite(ok, val, zv))}
		e.assumeExisting(f.st, tTrue, rv.T, x.AssertedType)
		return Value{Tuple: []Value{rv, {T: ok}}}
	}
	f.check("type-assert", x, ok, x.X.Name()+".(T)")
	e.assumeExisting(f.st, f.guard, val, x.AssertedType)
	return Value{T: val}
}

// ---------- maps ----------

func (e *Enc) mapHeaps(mt *types.Map) (pn string, ps Sort, vn string, vs Sort) {
	ks, es := e.sortOf(mt.Key()), e.sortOf(mt.Elem())
	id := e.sortID(ks) + "_" + e.sortID(es)
	return "HMp_" + id, arraySort(SRef, arraySort(ks, SBool)), "HMv_" + id, arraySort(SRef, arraySort(ks, es))
}

// mapLen: len(m) as an uninterpreted function of the map's presence set.
func (e *Enc) mapLen(st *State, mt *types.Map, m Term) Term {
	pn, ps, _, _ := e.mapHeaps(mt)
	fn := "maplen_" + e.sortID(arrayElem(ps))
	e.predeclare(fn, fmt.Sprintf("(declare-fun %s (%s) (_ BitVec 64))", fn, arrayElem(ps)))
	return app(SBV64, fn, sel(e.heap(st, pn, ps), m))
}

func (f *Frame) lookup(x *ssa.Lookup) Value {
	e := f.e
	name := f.name(x.Name())
	switch t := x.X.Type().Underlying().(type) {
	case *types.Map:
		m := f.term(x.X)
		k := f.term(x.Index)
		pn, ps, vn, vs := e.mapHeaps(t)
		present := e.defineBool(name+"_ok", and(not(eq(m, i64(0))), sel(sel(e.heap(f.st, pn, ps), m), k)))
		v := e.define(name+"_v", ite(present, sel(sel(e.heap(f.st, vn, vs), m), k), e.zero(t.Elem())))
		e.assumeExisting(f.st, tTrue, v, t.Elem())
		if x.CommaOk {
			return Value{Tuple: []Value{{T: v}, {T: present}}}
		}
		return Value{T: v}
	case *types.Basic: // string index
		s := f.term(x.X)
		idx := f.intTo64(x.Index)
		f.check("index", x, and(sle(i64(0), idx), slt(idx, app(SBV64, "strlen", s))), x.X.Name()+"[...]")
		return Value{T: e.define(name, app(SBV8, "strat", s, idx))}
	}
	return f.havocTyped(x.Name(), x.Type())
}

func (f *Frame) mapUpdate(x *ssa.MapUpdate) {
	e := f.e
	mt := x.Map.Type().Underlying().(*types.Map)
	m := f.term(x.Map)
	f.check("nil-map-store", x, not(eq(m, i64(0))), "map store")
	k := f.term(x.Key)
	v := f.term(x.Value)
	pn, ps, vn, vs := e.mapHeaps(mt)
	ph, vh := e.heap(f.st, pn, ps), e.heap(f.st, vn, vs)
	e.setHeap(f.st, pn, store(ph, m, store(sel(ph, m), k, tTrue)))
	e.setHeap(f.st, vn, store(vh, m, store(sel(vh, m), k, v)))
}

func (f *Frame) next(x *ssa.Next) Value {
	e := f.e
	tup := x.Type().(*types.Tuple)
	v := Value{}
	for i := 0; i < tup.Len(); i++ {
		tv := e.havoc(f.name(fmt.Sprintf("%s_%d", x.Name(), i)), e.sortOf(tup.At(i).Type()))
		e.assumeExisting(f.st, tTrue, tv, tup.At(i).Type())
		v.Tuple = append(v.Tuple, Value{T: tv})
	}
	// map iteration: a yielded key is present and the value is the stored one
	if rg, ok := x.Iter.(*ssa.Range); ok && !x.IsString {
		if mt, ok := rg.X.Type().Underlying().(*types.Map); ok {
			m := f.term(rg.X)
			pn, ps, vn, vs := e.mapHeaps(mt)
			okT := v.Tuple[0].T
			e.assume(implies(okT, and(not(eq(m, i64(0))), sel(sel(e.heap(f.st, pn, ps), m), v.Tuple[1].T))))
			if v.Tuple[2].T.Sort == arrayElem(arrayElem(vs)) {
				e.assume(implies(okT, eq(v.Tuple[2].T, sel(sel(e.heap(f.st, vn, vs), m), v.Tuple[1].T))))
			}
		}
	}
	return v
}

// returnAsserts: "at return : assert E" clauses of the contract, evaluated at this return statement with the
// source-level locals in scope and the result names bound to the returned values. A clause that mentions a variable
// which is not in scope at this return is not checked here (it must be checkable at one return at least).
func (f *Frame) returnAsserts(x *ssa.Return, rv []Value) {
	e := f.e
	ct := e.contract
	for ri := range ct.Returns {
		rc := &ct.Returns[ri]
		env := f.baseEnv(f.st)
		for nm, v := range f.localsDominating(x.Block()) {
			if _, isParam := f.paramNames()[nm]; isParam {
				continue
			}
			f.bindLocal(env, nm, v, f.st, false)
		}
		for nm, v := range f.localsBefore(x) {
			if _, isParam := f.paramNames()[nm]; isParam {
				continue
			}
			f.bindLocal(env, nm, v, f.st, false)
		}
		if len(ct.Results) == len(rv) {
			for i, rn := range ct.Results {
				env.vars[rn] = SpecVal{T: rv[i].T, Typ: x.Results[i].Type(), V: rv[i]}
			}
		}
		t, err := env.evalBool(rc.Cl.Expr)
		oname := fmt.Sprintf("%s#return-assert:%s", shortFuncName(f.fn), clauseLabel(rc.Cl, ri))
		if err != nil {
			if strings.Contains(err.Error(), "unknown identifier") {
				continue
			}
			e.specError(fmt.Sprintf("%s: %v", oname, err))
			continue
		}
		props := rc.Props
		if len(props) == 0 {
			props = ct.Props
		}
		o := e.addObl("return-assert", oname, f.guard, t, props)
		o.Text = rc.Cl.Text
		o.Pos = e.p.posString(x.Pos())
		if e.returnHits == nil {
			e.returnHits = map[int]int{}
		}
		e.returnHits[ri]++
	}
}
