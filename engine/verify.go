package main

// Per-function verification: build the encoding, settle candidate invariants (Houdini), discharge obligations.

import (
	"context"
	"fmt"
	"go/types"
	"os"
	"path/filepath"
	"sort"
	"strings"
	"sync"
	"time"

	"golang.org/x/tools/go/ssa"
)

type OblResult struct {
	O        *Obligation
	Res      SolverResult
	Func     string
	Enc      *Enc
	Replay   *ReplayOutcome
	QueryLen int
	Relaxed  bool // full query undecided but the quantifier-free slice has a model (candidate counterexample)
}

type FuncReport struct {
	Key        string
	Contract   *Contract
	Results    []*OblResult
	Covers     []*OblResult
	SpecErrors []string
	Trusted    []string
	Notes      []string
	Inlined    []string
	Unknown    []string
	Cands      int
	CandList   []string
	CandsKept  int
	Missing    bool
	Unsupported []string
	EncodeTime float64
	TotalTime  float64
	HoudiniTime float64
}

type runOpts struct {
	timeoutS  int
	needTwo   bool
	workdir   string
	covers    bool
	onlyProp  string
}

func (e *Enc) flagAsserts() []string {
	var out []string
	for _, c := range e.cands {
		if c.Dropped {
			out = append(out, fmt.Sprintf("(assert (not %s))", c.Flag))
		} else {
			out = append(out, fmt.Sprintf("(assert %s)", c.Flag))
		}
	}
	return out
}

// buildQuery renders the SMT query of an obligation. With light=true every quantified assumption of the
// command stream is dropped (sound for unsat answers: fewer assumptions); the preamble is kept.
func (e *Enc) buildQuery(pre []string, o *Obligation, model bool) string {
	return e.buildQueryX(pre, o, model, false)
}

func (e *Enc) buildQueryX(pre []string, o *Obligation, model bool, light bool) string {
	var sb strings.Builder
	sb.WriteString(smtPrelude)
	sb.WriteString("(declare-const wm0 (_ BitVec 64))\n(assert (bvult #x0000000000000000 wm0))\n(assert (bvult wm0 #x0001000000000000))\n")
	for _, c := range pre {
		sb.WriteString(c)
		sb.WriteByte('\n')
	}
	for _, c := range e.flagAsserts() {
		sb.WriteString(c)
		sb.WriteByte('\n')
	}
	for _, c := range e.cmds[:o.CmdIdx] {
		if light && strings.HasPrefix(c, "(assert") && (strings.Contains(c, "(forall ") || strings.Contains(c, "(exists ")) && !strings.HasPrefix(c, "(assert (=> cand!") {
			continue
		}
		sb.WriteString(c)
		sb.WriteByte('\n')
	}
	if o.Cover {
		sb.WriteString(fmt.Sprintf("(assert %s)\n", o.Goal.S))
	} else {
		sb.WriteString(fmt.Sprintf("(assert (not %s))\n", o.Goal.S))
	}
	sb.WriteString("(check-sat)\n")
	if model {
		sb.WriteString("(get-model)\n")
	}
	return sb.String()
}

// provedNow asks the solvers, while encoding, whether guard => fact follows from everything assumed so far
// (quantifier-free slice, short timeout). Used only to pick a simpler but equivalent encoding.
func (e *Enc) provedNow(guard, fact Term) bool {
	if fact.isC {
		return fact.c != 0
	}
	if e.workdir == "" {
		return false
	}
	o := &Obligation{Name: "encode-time", Goal: implies(guard, fact), CmdIdx: len(e.cmds)}
	q := e.buildQueryX(e.finishPreamble(), o, false, true)
	e.encQ++
	file := filepath.Join(e.workdir, fmt.Sprintf("enc_%d.smt2", e.encQ))
	if err := os.WriteFile(file, []byte(q), 0o644); err != nil {
		return false
	}
	defer os.Remove(file)
	v, _, _ := runOne(context.Background(), allSolvers[0], file, 1)
	return v == "unsat"
}

// houdini settles candidate invariants: greatest set that is inductive.
func (e *Enc) houdini(pre []string, workdir string) {
	for iter := 0; iter < 12; iter++ {
		type job struct {
			c *Cand
			o *Obligation
		}
		var jobs []job
		for _, c := range e.cands {
			if c.Dropped {
				continue
			}
			for _, o := range c.EntryObl {
				jobs = append(jobs, job{c, o})
			}
			for _, o := range c.PresObl {
				jobs = append(jobs, job{c, o})
			}
			if len(c.PresObl) == 0 {
				// never reaches a back edge in our encoding (loop body always exits): keep only if entry holds
			}
		}
		if len(jobs) == 0 {
			return
		}
		failed := map[*Cand]bool{}
		var mu sync.Mutex
		var wg sync.WaitGroup
		sem := make(chan struct{}, 12)
		for ji, j := range jobs {
			wg.Add(1)
			go func(ji int, j job) {
				defer wg.Done()
				sem <- struct{}{}
				defer func() { <-sem }()
				// quantifier-free slice only: an unsat answer stays valid, anything else just drops the candidate
				q := e.buildQueryX(pre, j.o, false, true)
				file := filepath.Join(workdir, fmt.Sprintf("cand_%d_%d.smt2", iter, ji))
				os.WriteFile(file, []byte(q), 0o644)
				v, _, _ := runOne(context.Background(), allSolvers[0], file, 2)
				os.Remove(file)
				if v != "unsat" && v != "sat" {
					// undecided under a short limit: a candidate must not be lost to a busy machine
					// (that would make later obligations fail spuriously) - race all solvers with more time
					r := solve(workdir, fmt.Sprintf("cand_%d_%d_retry", iter, ji), q, 20, false)
					v = r.Verdict
				}
				if v != "unsat" {
					mu.Lock()
					failed[j.c] = true
					mu.Unlock()
				}
			}(ji, j)
		}
		wg.Wait()
		if len(failed) == 0 {
			return
		}
		for c := range failed {
			c.Dropped = true
		}
	}
}

func (p *Prog) findFunc(key string) *ssa.Function {
	if fn, ok := p.funcs[key]; ok {
		return fn
	}
	return nil
}

// encodeFunction builds the encoding of one contracted function.
func (p *Prog) encodeFunction(fn *ssa.Function, ct *Contract) *Enc {
	return p.encodeFunctionIn(fn, ct, "")
}

func (p *Prog) encodeFunctionIn(fn *ssa.Function, ct *Contract, workdir string) *Enc {
	e := newEnc(p, fn, ct)
	if workdir != "" {
		os.MkdirAll(workdir, 0o755)
		e.workdir = workdir
	}
	e.siteHits = map[int]int{}
	e.returnHits = map[int]int{}
	e.ghostSorts = map[string]Sort{}
	e.ghostTypes = map[string]types.Type{}
	e.inlined = map[string]bool{}
	e.unknownCalls = map[string]bool{}
	e.usedContracts = map[string]bool{}
	e.tracked = append([]string{}, ct.Track...)
	// patterns used by ret()/argof()/called() in clauses
	for _, pat := range ct.specPatterns() {
		if !contains(e.tracked, pat) {
			e.tracked = append(e.tracked, pat)
		}
	}
	f := &Frame{e: e, fn: fn, safety: ct.Safety}
	e.preRegisterGhosts(fn)
	st := &State{heaps: map[string]Term{}, wm: sym("wm0", SRef)}
	for _, pat := range e.tracked {
		for _, kind := range []string{"called", "itercalled"} {
			gn := ghostName(kind, pat, -1)
			e.predeclare(gn+"@0", fmt.Sprintf("(declare-const %s@0 Bool)\n(assert (not %s@0))", gn, gn))
		}
	}
	// parameters
	var params []Value
	for _, prm := range fn.Params {
		t := e.havoc("p_"+prm.Name(), e.sortOf(prm.Type()))
		e.assumeExisting(st, tTrue, t, prm.Type())
		switch prm.Type().Underlying().(type) {
		case *types.Pointer, *types.Map, *types.Signature:
			if ct.Opts["maybenil"] == "" || !strings.Contains(" "+ct.Opts["maybenil"]+" ", " "+prm.Name()+" ") {
				e.assume(not(eq(t, i64(0))))
			}
		}
		params = append(params, Value{T: t})
	}
	f.params = params
	f.entry = st.clone()
	e.paramTerms = params
	if len(ct.Params) != len(fn.Params) {
		e.specError(fmt.Sprintf("contract %s is stale: header has %d parameters (with receiver), function has %d", ct.Key, len(ct.Params), len(fn.Params)))
	}
	if len(ct.Results) != fn.Signature.Results().Len() {
		e.specError(fmt.Sprintf("contract %s is stale: header has %d results, function has %d", ct.Key, len(ct.Results), fn.Signature.Results().Len()))
	}
	if fn.Pkg != nil {
		p.axiomCmdsFor(e, fn.Pkg.Pkg.Path())
	}
	// package initialisation: the ensures of a contract on <pkg>.init (proved separately against the
	// package's init function) are assumed at entry, together with A13 (package-level variables written
	// only by init keep that value)
	if fn.Pkg != nil && fn.Name() != "init" {
		// the function's own package and the packages it imports directly (their initialisers have run before any
		// function of this package can)
		initPkgs := []*types.Package{fn.Pkg.Pkg}
		for _, imp := range fn.Pkg.Pkg.Imports() {
			initPkgs = append(initPkgs, imp)
		}
		for _, ipk := range initPkgs {
			ict := p.contracts.ByKey[ipk.Path()+".init"]
			if ict == nil {
				continue
			}
			ienv := f.baseEnv(st)
			ienv.pkg = ipk
			used := false
			for _, en := range ict.Ensures {
				t, err := ienv.evalBool(en.Expr)
				if err != nil {
					if ipk != fn.Pkg.Pkg {
						continue // about unexported state of the imported package: not visible (and not needed) here
					}
					e.specError(fmt.Sprintf("%s init ensures %q: %v", ct.Key, en.Text, err))
					continue
				}
				e.assume(t)
				used = true
			}
			if used {
				e.trust("A13 package-level state established by " + ipk.Path() + ".init (proved) is unchanged afterwards")
			}
		}
	}
	// requires
	env := f.baseEnv(st)
	for _, rq := range ct.Requires {
		t, err := env.evalBool(rq.Expr)
		if err != nil {
			e.specError(fmt.Sprintf("%s requires %q: %v", ct.Key, rq.Text, err))
			continue
		}
		e.assume(t)
	}
	top := shortFuncName(fn)
	cov := &Obligation{Name: top + "#cover:requires", Kind: "cover", Goal: tTrue, CmdIdx: len(e.cmds), Cover: true, Props: ct.Props}
	e.covers = append(e.covers, cov)
	if fn.Blocks == nil {
		e.specError(fmt.Sprintf("%s has no body", ct.Key))
		return e
	}
	results, final, rg := f.run(tTrue, st, params)
	if len(e.unsupported) > 0 {
		return e
	}
	f.exitObligations()
	// ensures
	post := f.baseEnv(final)
	post.old = f.entry
	for i, rn := range ct.Results {
		if i < len(results) {
			rt := fn.Signature.Results().At(i).Type()
			post.vars[rn] = SpecVal{T: e.valTerm(results[i], rt), Typ: rt, V: results[i]}
			post.rets = append(post.rets, post.vars[rn])
		}
	}
	e.resultTerms = results
	e.finalGuard = rg
	for i, en := range ct.Ensures {
		t, err := post.evalBool(en.Expr)
		if err != nil {
			e.specError(fmt.Sprintf("%s ensures %q: %v", ct.Key, en.Text, err))
			continue
		}
		o := e.addObl("ensures", fmt.Sprintf("%s#ensures:%s", top, clauseLabel(en, i)), rg, t, ct.Props)
		o.Text = en.Text
		o.ReplayOK = true
	}
	// frame
	if ct.HasMod {
		f.frameObligations(ct, final, rg, top)
	}
	// site patterns that never matched: stale contract
	for si, s := range ct.Sites {
		if e.siteHits[si] == 0 && !strings.HasPrefix(s.Cl.Text, "nocall ") {
			e.specError(fmt.Sprintf("%s: site clause %q matched no call (pattern %s) — contract is stale or the call was removed", ct.Key, s.Cl.Text, s.Pattern))
		}
	}
	for ri, r := range ct.Returns {
		if e.returnHits[ri] == 0 {
			e.specError(fmt.Sprintf("%s: return clause %q could not be checked at any return statement (a variable it names is never in scope there)", ct.Key, r.Cl.Text))
		}
	}
	cov2 := &Obligation{Name: top + "#cover:returns", Kind: "cover", Goal: rg, CmdIdx: len(e.cmds), Cover: true, Props: ct.Props}
	e.covers = append(e.covers, cov2)
	return e
}

// preRegisterGhosts records the sorts of ret()/argof() ghosts of tracked callees from the static signatures of the
// calls in fn, so that a clause can mention them on a path where the call has not happened (yet).
func (e *Enc) preRegisterGhosts(fn *ssa.Function) {
	if fn.Blocks == nil {
		return
	}
	for _, b := range fn.Blocks {
		for _, in := range b.Instrs {
			var c *ssa.CallCommon
			switch x := in.(type) {
			case *ssa.Call:
				c = x.Common()
			case *ssa.Defer:
				c = x.Common()
			}
			if c == nil {
				continue
			}
			name := calleeName(c)
			for _, pat0 := range e.tracked {
				pat := pat0
				if k := strings.LastIndex(pat0, "#"); k >= 0 {
					pat = pat0[:k]
				}
				if !matchPattern(pat, name) {
					continue
				}
				sig := c.Signature()
				for i := 0; i < sig.Results().Len(); i++ {
					gn := ghostName("ret", pat0, i)
					if _, ok := e.ghostSorts[gn]; !ok {
						e.ghostSorts[gn] = e.sortOf(sig.Results().At(i).Type())
						e.ghostTypes[gn] = sig.Results().At(i).Type()
					}
				}
				args := c.Args
				if !c.IsInvoke() && sig.Recv() != nil && len(args) > 0 {
					args = args[1:]
				}
				for i, a := range args {
					gn := ghostName("arg", pat0, i)
					if _, ok := e.ghostSorts[gn]; !ok {
						e.ghostSorts[gn] = e.sortOf(a.Type())
						e.ghostTypes[gn] = a.Type()
					}
				}
			}
		}
	}
}

// frameObligations: everything that existed at entry and is not listed in modifies is unchanged.
func (f *Frame) frameObligations(ct *Contract, final *State, rg Term, top string) {
	e := f.e
	env := f.baseEnv(f.entry)
	modAll := false
	var modRegs []Term // slice regions allowed to change (element heaps)
	var modObjs []Term // objects whose fields may change
	modFields := map[string][]Term{}
	modBytes := false
	for _, m := range ct.Modifies {
		if m == "*" {
			modAll = true
			continue
		}
		if m == "bytes" {
			// the contents of byte arrays may change (wiping, in-place codecs); everything else is framed
			modBytes = true
			continue
		}
		ts, err := env.modTargets(m)
		if err != nil {
			e.specError(fmt.Sprintf("%s modifies %q: %v", ct.Key, m, err))
			continue
		}
		for _, t := range ts {
			switch {
			case t.heap != "":
				modFields[t.heap] = append(modFields[t.heap], *t.obj)
			case t.region != nil:
				modRegs = append(modRegs, *t.region)
			default:
				modObjs = append(modObjs, *t.obj)
				// embedded array fields of the object live in the element heap
				if t.typ != nil {
					if pt, ok := t.typ.Underlying().(*types.Pointer); ok {
						if st, ok := pt.Elem().Underlying().(*types.Struct); ok {
							for i := 0; i < st.NumFields(); i++ {
								if _, isArr := st.Field(i).Type().Underlying().(*types.Array); isArr {
									modRegs = append(modRegs, e.fieldRegion(pt.Elem(), i, *t.obj))
								}
							}
						}
					}
				}
			}
		}
	}
	if modAll {
		return
	}
	var names []string
	for k := range final.heaps {
		names = append(names, k)
	}
	sort.Strings(names)
	for _, k := range names {
		cur := final.heaps[k]
		init := e.heap(f.entry, k, cur.Sort)
		if cur.S == init.S || strings.HasPrefix(k, "ghost_") {
			continue
		}
		if hb, _ := e.elemHeapName(SBV8); modBytes && k == hb {
			continue
		}
		if !strings.HasPrefix(k, "HE_") && !strings.HasPrefix(k, "HF_") && !strings.HasPrefix(k, "HP_") && !strings.HasPrefix(k, "HM") {
			if strings.HasPrefix(k, "G_") {
				e.addObl("frame", fmt.Sprintf("%s#frame:%s", top, k), rg, eq(cur, init), ct.Props)
			}
			continue
		}
		q := e.qvar()
		qv := sym(q, SRef)
		allowed := []Term{ult(sym("wm0", SRef), qv)}
		lst := modObjs
		if strings.HasPrefix(k, "HE_") {
			lst = modRegs
		}
		for _, r := range lst {
			allowed = append(allowed, eq(qv, r))
		}
		for _, r := range modFields[k] {
			allowed = append(allowed, eq(qv, r))
		}
		goal := Term{S: fmt.Sprintf("(forall ((%s (_ BitVec 64))) %s)", q, or(append(allowed, eq(sel(cur, qv), sel(init, qv)))...).S), Sort: SBool}
		e.addObl("frame", fmt.Sprintf("%s#frame:%s", top, k), rg, goal, ct.Props)
	}
}

func (ct *Contract) specPatterns() []string {
	var out []string
	add := func(s string) {
		for _, kw := range []string{"ret(", "argof(", "called(", "itercalled("} {
			rest := s
			for {
				k := strings.Index(rest, kw)
				if k < 0 {
					break
				}
				rest = rest[k+len(kw):]
				depth := 1
				j := 0
				for j < len(rest) && depth > 0 {
					if rest[j] == '(' {
						depth++
					} else if rest[j] == ')' {
						depth--
					}
					if depth > 0 {
						j++
					}
				}
				pat := strings.Trim(strings.TrimSpace(rest[:j]), `"`)
				pat = normRe.ReplaceAllString(pat, "")
				if pat != "" && !contains(out, pat) {
					out = append(out, pat)
				}
			}
		}
	}
	for _, c := range ct.Requires {
		add(c.Text)
	}
	for _, c := range ct.Ensures {
		add(c.Text)
	}
	for _, s := range ct.Sites {
		add(s.Cl.Text)
	}
	for _, l := range ct.Loops {
		for _, c := range l.Invariants {
			add(c.Text)
		}
		for _, c := range l.Steps {
			add(c.Text)
		}
		for _, c := range l.Exits {
			add(c.Text)
		}
	}
	return out
}

// verifyFunction encodes and discharges one function.
func (p *Prog) verifyFunction(ct *Contract, opts runOpts) *FuncReport {
	rep := &FuncReport{Key: ct.Key, Contract: ct}
	fn := p.findFunc(ct.Key)
	if fn == nil {
		rep.Missing = true
		return rep
	}
	t0 := time.Now()
	var e *Enc
	func() {
		defer func() {
			if r := recover(); r != nil {
				e = newEnc(p, fn, ct)
				e.specErrors = append(e.specErrors, fmt.Sprintf("internal error while encoding %s: %v", ct.Key, r))
				if os.Getenv("ACV_DEBUG") != "" {
					panic(r)
				}
			}
		}()
		e = p.encodeFunctionIn(fn, ct, filepath.Join(opts.workdir, sanitize(shortFuncName(fn))))
	}()
	rep.EncodeTime = time.Since(t0).Seconds()
	rep.SpecErrors = e.specErrors
	rep.Unsupported = e.unsupported
	for k := range e.trusted {
		rep.Trusted = append(rep.Trusted, k)
	}
	for k := range e.notes {
		rep.Notes = append(rep.Notes, k)
	}
	for k := range e.inlined {
		rep.Inlined = append(rep.Inlined, k)
	}
	for k := range e.unknownCalls {
		rep.Unknown = append(rep.Unknown, k)
	}
	sort.Strings(rep.Trusted)
	sort.Strings(rep.Notes)
	sort.Strings(rep.Inlined)
	sort.Strings(rep.Unknown)
	pre := e.finishPreamble()
	wd := filepath.Join(opts.workdir, sanitize(shortFuncName(fn)))
	os.MkdirAll(wd, 0o755)
	th := time.Now()
	e.houdini(pre, wd)
	rep.HoudiniTime = time.Since(th).Seconds()
	rep.Cands = len(e.cands)
	for _, c := range e.cands {
		if !c.Dropped {
			rep.CandsKept++
		}
		rep.CandList = append(rep.CandList, fmt.Sprintf("%s dropped=%v entry=%d pres=%d", c.Desc, c.Dropped, len(c.EntryObl), len(c.PresObl)))
	}
	var wg sync.WaitGroup
	sem := make(chan struct{}, 10)
	run := func(o *Obligation, into *[]*OblResult, mu *sync.Mutex) {
		defer wg.Done()
		sem <- struct{}{}
		defer func() { <-sem }()
		q := e.buildQuery(pre, o, true)
		var r SolverResult
		hasQ := false
		for _, c := range e.cmds[:o.CmdIdx] {
			if strings.HasPrefix(c, "(assert") && (strings.Contains(c, "(forall ") || strings.Contains(c, "(exists ")) {
				hasQ = true
				break
			}
		}
		relaxed := false
		if hasQ && !o.Cover {
			// first try without the quantified assumptions (fewer assumptions: unsat stays valid)
			lq := e.buildQueryX(pre, o, true, true)
			lt := opts.timeoutS
			if lt > 10 {
				lt = 10
			}
			lr := solve(wd, o.Name+"_light", lq, lt, opts.needTwo)
			if lr.Verdict == "unsat" {
				r = lr
				r.Solver += " (quantifier-free slice)"
			} else {
				r = solve(wd, o.Name, q, opts.timeoutS, opts.needTwo)
				if r.Verdict != "unsat" && r.Verdict != "sat" && lr.Verdict == "sat" {
					relaxed = true
				}
			}
		} else if o.Cover {
			ct2 := opts.timeoutS
			if ct2 > 5 {
				ct2 = 5
			}
			r = solve(wd, o.Name, q, ct2, false)
			if r.Verdict != "sat" && r.Verdict != "unsat" && hasQ {
				lr := solve(wd, o.Name+"_light", e.buildQueryX(pre, o, false, true), ct2, false)
				if lr.Verdict == "sat" || lr.Verdict == "unsat" {
					r = lr
					r.Solver += " (quantifier-free slice)"
				}
			}
		} else {
			r = solve(wd, o.Name, q, opts.timeoutS, opts.needTwo && !o.Cover)
		}
		res := &OblResult{O: o, Res: r, Func: ct.Key, Enc: e, QueryLen: len(q), Relaxed: relaxed}
		mu.Lock()
		*into = append(*into, res)
		mu.Unlock()
	}
	var mu sync.Mutex
	for _, o := range e.obls {
		if opts.onlyProp != "" && !contains(o.Props, opts.onlyProp) {
			continue
		}
		wg.Add(1)
		go run(o, &rep.Results, &mu)
	}
	for _, o := range e.covers {
		wg.Add(1)
		go run(o, &rep.Covers, &mu)
	}
	wg.Wait()
	// second chance for undecided obligations: alone (no competition for cores) and with a longer timeout,
	// so that a busy machine does not turn a slow-but-provable obligation into an alarm
	for _, r := range rep.Results {
		if r.Res.Verdict == "unsat" || r.Res.Verdict == "sat" || r.Relaxed {
			continue
		}
		q := e.buildQuery(pre, r.O, true)
		r2 := solve(wd, r.O.Name+"_retry", q, opts.timeoutS*10, false)
		if r2.Verdict == "unsat" || r2.Verdict == "sat" {
			r2.Solver += " (retry)"
			r.Res = r2
		}
	}
	rep.TotalTime = time.Since(t0).Seconds()
	sort.Slice(rep.Results, func(i, j int) bool { return rep.Results[i].O.Name < rep.Results[j].O.Name })
	sort.Slice(rep.Covers, func(i, j int) bool { return rep.Covers[i].O.Name < rep.Covers[j].O.Name })
	return rep
}
