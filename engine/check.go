package main

// `acv check --prop Cxx --tier quick|thorough`: decide one property on the current tree.

import (
	"encoding/json"
	"flag"
	"fmt"
	"os"
	"path/filepath"
	"sort"
	"strconv"
	"strings"
	"sync"
	"time"
)

type KnownFinding struct {
	Property   string `json:"property"`
	Obligation string `json:"obligation"`
	WhatFails  string `json:"what_fails"`
	Replay     string `json:"replay,omitempty"`
}

type FixedEntry struct {
	Property   string `json:"property"`
	Commit     string `json:"commit"`
	WhatFailed string `json:"what_failed"`
	Obligation string `json:"obligation,omitempty"`
}

type KnownFile struct {
	Findings []KnownFinding `json:"findings"`
	Fixed    []FixedEntry   `json:"fixed"`
}

func loadKnown() *KnownFile {
	kf := &KnownFile{}
	b, err := os.ReadFile(filepath.Join(verifDir, "known_findings.json"))
	if err == nil {
		json.Unmarshal(b, kf)
	}
	return kf
}

func loadBaseline() map[string]map[string]bool {
	out := map[string]map[string]bool{}
	b, err := os.ReadFile(filepath.Join(verifDir, "expected_obligations.json"))
	if err != nil {
		return out
	}
	raw := map[string][]string{}
	json.Unmarshal(b, &raw)
	for k, v := range raw {
		out[k] = map[string]bool{}
		for _, n := range v {
			out[k][n] = true
		}
	}
	return out
}

type checkOutcome struct {
	prop        string
	tier        string
	reports     []*FuncReport
	lemmaRes    []*OblResult
	structRes   []structResult
	violations  []string
	known       []string
	undecided   []string
	obligations int
	discharged  int
	knownObls   []string
	vanished    []string
	coversTotal int
	coversSat   int
	errors      []string
	byBackend   map[string]int
	solverTime  float64
	samples     []map[string]interface{}
	slow        []map[string]interface{} // discharged, but only after more than a third of the budget or on the retry
	trusted     map[string]bool
	notes       map[string]bool
	functions   []string
	inlined     map[string]bool
	unknown     map[string]bool
	single      []string
	dischargedNames []string
	selftest    []map[string]interface{}
	bounded     []map[string]interface{}
}

func propPackages(prop string, overlay map[string][]byte) []string {
	var out []string
	for ip, file := range contractFiles() {
		if fileProps(file, overlay)[prop] {
			out = append(out, ip)
		}
	}
	sort.Strings(out)
	return out
}

func cmdCheck(args []string) int {
	fs := flag.NewFlagSet("check", flag.ExitOnError)
	prop := fs.String("prop", "", "property id")
	tier := fs.String("tier", "", "quick|thorough")
	noEvidence := fs.Bool("no-evidence", false, "do not write the evidence file")
	fs.Parse(args)
	if *tier == "" {
		*tier = os.Getenv("VERIF_TIER")
	}
	if *tier == "" {
		*tier = "quick"
	}
	if *prop == "" {
		fmt.Println("ERROR: --prop required")
		return 2
	}
	seed, _ := strconv.Atoi(os.Getenv("VERIF_SEED"))
	start := time.Now()
	oc, code := runCheck(*prop, *tier, nil, seed)
	if code == 2 {
		for _, e := range oc.errors {
			fmt.Println("ERROR", e)
		}
		return 2
	}
	wall := time.Since(start).Seconds()
	for _, k := range oc.known {
		fmt.Println(k)
	}
	for _, u := range oc.undecided {
		fmt.Println(u)
	}
	for _, v := range oc.violations {
		fmt.Println(v)
	}
	if !*noEvidence {
		writeEvidence(oc, seed, wall)
	}
	fmt.Printf("acv: property=%s tier=%s functions=%d obligations=%d discharged=%d known-finding-obligations=%d violations=%d wall=%.1fs\n",
		oc.prop, oc.tier, len(oc.functions), oc.obligations, oc.discharged, len(oc.knownObls), len(oc.violations), wall)
	if len(oc.violations) > 0 {
		return 1
	}
	return 0
}

// runCheck verifies every obligation tagged with prop. overlay (optional) replaces file contents in memory.
func runCheck(prop, tier string, overlay map[string][]byte, seed int) (*checkOutcome, int) {
	oc := &checkOutcome{prop: prop, tier: tier, byBackend: map[string]int{}, trusted: map[string]bool{}, notes: map[string]bool{},
		inlined: map[string]bool{}, unknown: map[string]bool{}}
	pkgs := propPackages(prop, overlay)
	if len(pkgs) == 0 {
		oc.errors = append(oc.errors, "no contract file mentions property "+prop)
		return oc, 2
	}
	p, err := loadProg(pkgs, overlay)
	if err != nil {
		oc.errors = append(oc.errors, err.Error())
		return oc, 2
	}
	if len(p.contracts.Errors) > 0 {
		oc.errors = append(oc.errors, p.contracts.Errors...)
		return oc, 2
	}
	work := filepath.Join(verifDir, "work", prop+"-"+tier)
	if overlay != nil {
		work, _ = os.MkdirTemp("", "acvsel")
		defer os.RemoveAll(work)
	} else {
		os.RemoveAll(work)
	}
	os.MkdirAll(work, 0o755)
	opts := runOpts{timeoutS: 20, workdir: work, onlyProp: prop}
	if tier == "thorough" {
		opts.timeoutS = 60
		opts.needTwo = true
	}
	if v := os.Getenv("ACV_TIMEOUT"); v != "" {
		opts.timeoutS, _ = strconv.Atoi(v)
	}
	var todo []*Contract
	for _, ct := range p.contracts.Order {
		if ct.Assumed {
			continue
		}
		if !ct.mentionsProp(prop) {
			continue
		}
		todo = append(todo, ct)
	}
	reports := make([]*FuncReport, len(todo))
	var wg sync.WaitGroup
	sem := make(chan struct{}, 6)
	for i, ct := range todo {
		wg.Add(1)
		go func(i int, ct *Contract) {
			defer wg.Done()
			sem <- struct{}{}
			defer func() { <-sem }()
			reports[i] = p.verifyFunction(ct, opts)
		}(i, ct)
	}
	wg.Wait()
	oc.reports = reports
	if os.Getenv("ACV_VERBOSE") != "" {
		for _, r := range reports {
			fmt.Printf("  func %-90s enc %.1fs houdini %.1fs total %.1fs obls %d cands %d/%d\n", r.Key, r.EncodeTime, r.HoudiniTime, r.TotalTime, len(r.Results), r.CandsKept, r.Cands)
		}
	}
	// lemmas and structural obligations
	oc.lemmaRes = p.checkLemmas(prop, opts)
	oc.structRes = p.checkStructurals(prop)
	classify(p, oc, work, overlay == nil)
	return oc, 0
}

func (ct *Contract) mentionsProp(prop string) bool {
	if contains(ct.Props, prop) {
		return true
	}
	for _, s := range ct.Sites {
		if contains(s.Props, prop) {
			return true
		}
	}
	return false
}

func classify(p *Prog, oc *checkOutcome, work string, doReplay bool) {
	known := loadKnown()
	baseline := loadBaseline()[oc.prop]
	isKnown := func(name string) *KnownFinding {
		for i := range known.Findings {
			if known.Findings[i].Obligation == name {
				return &known.Findings[i]
			}
		}
		return nil
	}
	replayDir := filepath.Join(verifDir, "replays", oc.prop)
	generated := map[string]bool{}
	violation := func(name, reason string, replay string, reproduced bool) {
		suffix := ""
		if !reproduced {
			suffix = " no-failing-input-found"
		}
		oc.violations = append(oc.violations, fmt.Sprintf("VIOLATION property=%s replay=%s obligation=%s reason=%s%s", oc.prop, replay, name, reason, suffix))
	}
	writeNote := func(name, text string) string {
		os.MkdirAll(replayDir, 0o755)
		n := sanitize(name)
		if len(n) > 120 {
			n = fmt.Sprintf("%s_%x", n[:100], hashStr(name))
		}
		path := filepath.Join(replayDir, n+".replay.txt")
		os.WriteFile(path, []byte(text), 0o644)
		return path
	}
	backEdgeCovers := map[string]bool{}
	for _, rep := range oc.reports {
		oc.functions = append(oc.functions, rep.Key)
		for _, t := range rep.Trusted {
			oc.trusted[t] = true
		}
		for _, t := range rep.Notes {
			oc.notes[t] = true
		}
		for _, t := range rep.Inlined {
			oc.inlined[t] = true
		}
		for _, t := range rep.Unknown {
			oc.unknown[t] = true
		}
		fname := rep.Key
		if rep.Missing {
			oc.obligations++
			name := fname + "#target"
			generated[name] = true
			if kf := isKnown(name); kf != nil {
				oc.known = append(oc.known, fmt.Sprintf("KNOWN-FINDING: property=%s %s %s", oc.prop, name, kf.WhatFails))
				oc.knownObls = append(oc.knownObls, name)
				oc.obligations--
				continue
			}
			path := writeNote(name, fmt.Sprintf("obligation: %s\nThe contract at %s:%d names function %s, which does not exist in the current tree (removed, renamed or signature changed).\nA contract whose target is missing cannot be discharged.\n", name, rep.Contract.File, rep.Contract.Line, fname))
			violation(name, "target-missing", path, false)
			continue
		}
		if len(rep.Unsupported) > 0 {
			oc.errors = append(oc.errors, rep.Unsupported...)
		}
		for _, se := range rep.SpecErrors {
			oc.obligations++
			name := fname + "#contract:" + se
			if len(name) > 200 {
				name = name[:200]
			}
			path := writeNote(name, fmt.Sprintf("obligation: %s\nThe contract of %s could not be evaluated against the current code:\n%s\n", name, fname, se))
			violation(fname+"#contract", "stale-contract", path, false)
		}
		all := append(append([]*OblResult{}, rep.Results...), rep.Covers...)
		for _, r := range all {
			name := r.O.Name
			generated[name] = true
			oc.solverTime += r.Res.Time
			if r.O.Cover {
				oc.coversTotal++
				if r.Res.Verdict == "sat" {
					oc.coversSat++
				}
				// vacuity check: must be satisfiable
				if k := strings.Index(name, "-back-edge:from"); k >= 0 {
					// a loop with several back edges: some may be legitimately dead (short-circuit re-evaluation of
					// a deterministic test); the loop is vacuous only if none of its back edges is reachable
					grp := name[:k]
					if _, ok := backEdgeCovers[grp]; !ok {
						backEdgeCovers[grp] = false
					}
					if r.Res.Verdict != "unsat" {
						backEdgeCovers[grp] = true
					}
					continue
				}
				if r.Res.Verdict == "unsat" {
					oc.obligations++
					path := writeNote(name, fmt.Sprintf("obligation: %s\nVacuity check failed: the %s of %s is unsatisfiable (solver %s). Every other obligation of this function would hold vacuously.\n", name, r.O.Kind, fname, r.Res.Solver))
					violation(name, "vacuous", path, false)
				}
				continue
			}
			if kf := isKnown(name); kf != nil {
				if r.Res.Verdict != "unsat" {
					oc.known = append(oc.known, fmt.Sprintf("KNOWN-FINDING: property=%s %s %s", oc.prop, name, kf.WhatFails))
				}
				oc.knownObls = append(oc.knownObls, name)
				continue
			}
			oc.obligations++
			if r.Res.Verdict == "unsat" && (r.Res.Time > 3.3 || strings.Contains(r.Res.Solver, "(retry)")) {
				oc.slow = append(oc.slow, map[string]interface{}{"obligation": name, "solver": r.Res.Solver, "time_s": round3(r.Res.Time)})
			}
			if len(oc.samples) < 12 {
				oc.samples = append(oc.samples, map[string]interface{}{"obligation": name, "kind": r.O.Kind, "verdict": r.Res.Verdict, "solver": r.Res.Solver, "time_s": round3(r.Res.Time), "query_bytes": r.QueryLen})
			}
			switch r.Res.Verdict {
			case "unsat":
				oc.discharged++
				oc.byBackend[r.Res.Solver]++
				oc.dischargedNames = append(oc.dischargedNames, name)
				if sb, ok := r.Res.Others["single_backend"]; ok {
					oc.single = append(oc.single, name+" ("+sb+")")
				}
			case "sat":
				if doReplay {
					ro := p.replayObligation(r, work, replayDir)
					r.Replay = ro
					violation(name, "counterexample", ro.Path, ro.Reproduced)
				} else {
					violation(name, "counterexample", "-", false)
				}
			case "error":
				oc.errors = append(oc.errors, fmt.Sprintf("%s: solver error: %s", name, firstLines(r.Res.Output, 3)))
				if baseline[name] || baseline == nil {
					path := writeNote(name, fmt.Sprintf("obligation: %s\nsolver error\n%s\n", name, r.Res.Output))
					violation(name, "solver-error", path, false)
				}
			default: // unknown / timeout
				if r.Relaxed && doReplay {
					// candidate counterexample from the quantifier-free slice: only a replay on the real code counts
					ro := p.replayObligation(r, work, replayDir)
					if ro.Reproduced {
						violation(name, "counterexample(relaxed-query)", ro.Path, true)
						continue
					}
				}
				if baseline[name] {
					path := writeNote(name, fmt.Sprintf("obligation: %s\nkind: %s\nThis obligation was discharged on the unchanged tree (it is in expected_obligations.json) and is no longer discharged: verdict %s.\nposition: %s\n--- solver output ---\n%s\n", name, r.O.Kind, r.Res.Verdict, r.O.Pos, r.Res.Output))
					violation(name, "undecided", path, false)
				} else {
					oc.undecided = append(oc.undecided, fmt.Sprintf("UNDECIDED property=%s obligation=%s verdict=%s", oc.prop, name, r.Res.Verdict))
					oc.obligations--
				}
			}
		}
	}
	for _, r := range oc.lemmaRes {
		name := r.O.Name
		generated[name] = true
		oc.solverTime += r.Res.Time
		if kf := isKnown(name); kf != nil {
			if r.Res.Verdict != "unsat" {
				oc.known = append(oc.known, fmt.Sprintf("KNOWN-FINDING: property=%s %s %s", oc.prop, name, kf.WhatFails))
			}
			oc.knownObls = append(oc.knownObls, name)
			continue
		}
		oc.obligations++
		if r.Res.Verdict == "unsat" {
			oc.discharged++
			oc.byBackend[r.Res.Solver]++
			oc.dischargedNames = append(oc.dischargedNames, name)
		} else {
			path := writeNote(name, fmt.Sprintf("obligation: %s\nlemma not discharged: %s\n%s\n", name, r.Res.Verdict, r.Res.Output))
			violation(name, "lemma-"+r.Res.Verdict, path, false)
		}
	}
	{
		var grps []string
		for g := range backEdgeCovers {
			grps = append(grps, g)
		}
		sort.Strings(grps)
		for _, g := range grps {
			if !backEdgeCovers[g] {
				oc.obligations++
				name := g + "-back-edge"
				path := writeNote(name, fmt.Sprintf("obligation: %s\nVacuity check failed: no back edge of this loop is reachable in the encoding, so its invariant-preserved and loop-step obligations hold vacuously.\n", name))
				violation(name, "vacuous", path, false)
			}
		}
	}
	for _, sr := range oc.structRes {
		name := sr.name
		generated[name] = true
		if kf := isKnown(name); kf != nil {
			if !sr.ok {
				oc.known = append(oc.known, fmt.Sprintf("KNOWN-FINDING: property=%s %s %s", oc.prop, name, kf.WhatFails))
			}
			oc.knownObls = append(oc.knownObls, name)
			continue
		}
		oc.obligations++
		if sr.ok {
			oc.discharged++
			oc.byBackend["structural(go/types+ssa)"]++
			oc.dischargedNames = append(oc.dischargedNames, name)
		} else {
			path := writeNote(name, fmt.Sprintf("obligation: %s\nstructural obligation failed:\n%s\n", name, sr.detail))
			violation(name, "structural", path, false)
		}
	}
	for n := range baseline {
		if !generated[n] {
			oc.vanished = append(oc.vanished, n)
		}
	}
	sort.Strings(oc.vanished)
	// vanished obligations are reported in the evidence only: a renamed local or re-indexed duplicate
	// changes an obligation's name without changing what is proved, so this must not raise an alarm.
	if oc.obligations == 0 && len(oc.knownObls) == 0 {
		oc.errors = append(oc.errors, "zero obligations generated for "+oc.prop)
	}
	sort.Strings(oc.violations)
	sort.Strings(oc.known)
}

func firstLines(s string, n int) string {
	ls := strings.Split(s, "\n")
	if len(ls) > n {
		ls = ls[:n]
	}
	return strings.Join(ls, " | ")
}

func round3(f float64) float64 { return float64(int(f*1000)) / 1000 }

func keys(m map[string]bool) []string {
	var out []string
	for k := range m {
		out = append(out, k)
	}
	sort.Strings(out)
	return out
}

func writeEvidence(oc *checkOutcome, seed int, wall float64) {
	trusted := []string{
		"A1 go/ssa translation, Go compiler/runtime, SMT solvers (raced: z3-new 5.1.0, cvc5 1.0, z3 4.8.12), the acv VC generator",
		"A2 GOARCH=amd64: int is a 64-bit bit-vector (no mathematical integers anywhere)",
		"A3 every existing slice/string has 0 <= len <= cap <= 2^40 (no object over 1 TiB); make/append panic above 2^48",
		"A4 calls without contract/model: results and memory reachable from pointer/non-byte-slice arguments are havocked, nothing else changes",
		"A4b callees without contract/model do not write through []byte arguments unless their name is on the write list (Read*, Zeroize*, Put*, Encode/Decode, copy-like, Seal/Open, Sum, Unmarshal)",
		"A8 functions are verified as sequential programs (no interleavings)",
		"A12 pointer/interface parameters, receivers and collaborator fields loaded from them are non-nil",
	}
	trusted = append(trusted, keys(oc.trusted)...)
	var assumptions []string
	for _, n := range keys(oc.notes) {
		assumptions = append(assumptions, "note: "+n)
	}
	for _, n := range keys(oc.unknown) {
		assumptions = append(assumptions, "uncontracted callee treated as havoc (A4): "+n)
	}
	for _, n := range keys(oc.inlined) {
		assumptions = append(assumptions, "inlined from its real SSA body (verified in caller context): "+n)
	}
	if len(assumptions) > 400 {
		assumptions = assumptions[:400]
	}
	sort.Strings(oc.functions)
	cov := map[string]interface{}{
		"obligations":               oc.obligations,
		"discharged":                oc.discharged,
		"checker_cmd":               fmt.Sprintf("/verif/bin/acv check --prop %s --tier %s", oc.prop, oc.tier),
		"trusted_base":              trusted,
		"functions_under_contract":  oc.functions,
		"by_backend":                oc.byBackend,
		"solver_time_s":             round3(oc.solverTime),
		"known_finding_obligations": oc.knownObls,
		"undecided_new_obligations": oc.undecided,
		"vanished_obligations":      oc.vanished,
		"single_backend":            oc.single,
		"samples":                   oc.samples,
		"slow_obligations":          oc.slow,
		"machinery_errors":          oc.errors,
		"selftest":                  oc.selftest,
		"vacuity_covers":            map[string]int{"generated": oc.coversTotal, "reachable": oc.coversSat},
		"bounded_standins":          oc.bounded,
		"explanation":               "Each obligation is one SMT query generated from the go/ssa form of the real function in /repo plus its //@ contract; 'discharged' counts queries answered unsat. Known-finding obligations are excluded from both counts.",
	}
	if len(oc.samples) == 0 {
		cov["samples"] = []interface{}{"(no obligations)"}
	}
	ev := map[string]interface{}{
		"property_id": oc.prop,
		"tier":        oc.tier,
		"seed":        seed,
		"level":       "proof",
		"coverage":    cov,
		"assumptions": assumptions,
		"wall_s":      round3(wall),
		"violations":  len(oc.violations),
	}
	b, _ := json.MarshalIndent(ev, "", " ")
	os.MkdirAll(filepath.Join(verifDir, "evidence"), 0o755)
	os.WriteFile(filepath.Join(verifDir, "evidence", oc.prop+".json"), b, 0o644)
}
