package main

import (
	"flag"
	"fmt"
	"os"
	"sort"
	"strings"
)

type ReplayOutcome struct {
	Path       string
	Reproduced bool
	Output     string
	Skipped    string
}

func main() {
	if len(os.Args) < 2 {
		fmt.Fprintln(os.Stderr, "usage: acv <check|func|list> ...")
		os.Exit(2)
	}
	switch os.Args[1] {
	case "func":
		cmdFunc(os.Args[2:])
	case "check":
		os.Exit(cmdCheck(os.Args[2:]))
	case "baseline":
		os.Exit(cmdBaseline(os.Args[2:]))
	case "selftest":
		os.Exit(cmdSelftest(os.Args[2:]))
	case "replay":
		os.Exit(cmdReplay(os.Args[2:]))
	default:
		fmt.Fprintln(os.Stderr, "unknown command", os.Args[1])
		os.Exit(2)
	}
}

// cmdFunc: verify the contracted functions of some packages (development aid).
func cmdFunc(args []string) {
	fs := flag.NewFlagSet("func", flag.ExitOnError)
	timeout := fs.Int("timeout", 10, "per-obligation timeout (s)")
	only := fs.String("only", "", "substring filter on function keys")
	verbose := fs.Bool("v", false, "verbose")
	fs.Parse(args)
	pkgs := fs.Args()
	p, err := loadProg(pkgs, nil)
	if err != nil {
		fmt.Println("ERROR", err)
		os.Exit(2)
	}
	for _, e := range p.contracts.Errors {
		fmt.Println("CONTRACT-ERROR", e)
	}
	wd, _ := os.MkdirTemp("", "acv")
	if d := os.Getenv("ACV_WORKDIR"); d != "" {
		wd = d
		os.MkdirAll(wd, 0o755)
	} else {
		defer os.RemoveAll(wd)
	}
	opts := runOpts{timeoutS: *timeout, workdir: wd}
	for _, ct := range p.contracts.Order {
		if ct.Assumed || !p.isTargetPkg(ct.PkgPath) {
			continue
		}
		if *only != "" && !strings.Contains(ct.Key, *only) {
			continue
		}
		rep := p.verifyFunction(ct, opts)
		printReport(rep, *verbose)
	}
}

func printReport(rep *FuncReport, verbose bool) {
	fmt.Printf("== %s (encode %.2fs, cands %d/%d)\n", rep.Key, rep.EncodeTime, rep.CandsKept, rep.Cands)
	if rep.Missing {
		fmt.Println("   MISSING function")
		return
	}
	for _, s := range rep.SpecErrors {
		fmt.Println("   SPEC-ERROR", s)
	}
	for _, s := range rep.Unsupported {
		fmt.Println("   UNSUPPORTED", s)
	}
	for _, r := range rep.Covers {
		fmt.Printf("   cover %-8s %-12s %5.2fs %s\n", r.Res.Verdict, r.Res.Solver, r.Res.Time, r.O.Name)
	}
	for _, r := range rep.Results {
		fmt.Printf("   %-8s %-12s %5.2fs %dk %s\n", r.Res.Verdict, r.Res.Solver, r.Res.Time, r.QueryLen/1024, r.O.Name)
		if verbose && r.Res.Verdict != "unsat" {
			out := r.Res.Output
			if len(out) > 3000 {
				out = out[:3000]
			}
			fmt.Println(out)
		}
	}
	if verbose {
		for _, c := range rep.CandList {
			fmt.Println("   cand:", c)
		}
		sort.Strings(rep.Notes)
		for _, n := range rep.Notes {
			fmt.Println("   note:", n)
		}
		for _, n := range rep.Unknown {
			fmt.Println("   unknown call:", n)
		}
		for _, n := range rep.Inlined {
			fmt.Println("   inlined:", n)
		}
	}
}
