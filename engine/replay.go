package main

// Replay of solver counterexamples against the real code: the model is shrunk, turned into an
// in-package Go test, and injected with `go test -overlay` (nothing is written to /repo).

import (
	"bytes"
	"context"
	"encoding/json"
	"fmt"
	"go/types"
	"os"
	"os/exec"
	"path/filepath"
	"strconv"
	"strings"
	"time"

	"golang.org/x/tools/go/ssa"
)

// sexpr parsing for (get-value ...) output
type sx struct {
	atom string
	list []*sx
}

func parseSx(s string) []*sx {
	var stack [][]*sx
	cur := []*sx{}
	i := 0
	for i < len(s) {
		c := s[i]
		switch {
		case c == '(':
			stack = append(stack, cur)
			cur = []*sx{}
			i++
		case c == ')':
			n := &sx{list: cur}
			if n.list == nil {
				n.list = []*sx{}
			}
			if len(stack) == 0 {
				return cur
			}
			cur = stack[len(stack)-1]
			stack = stack[:len(stack)-1]
			cur = append(cur, n)
			i++
		case c == ' ' || c == '\n' || c == '\t' || c == '\r':
			i++
		case c == '|':
			j := strings.IndexByte(s[i+1:], '|')
			if j < 0 {
				j = len(s) - i - 2
			}
			cur = append(cur, &sx{atom: s[i : i+j+2]})
			i += j + 2
		case c == '"':
			j := i + 1
			for j < len(s) && s[j] != '"' {
				j++
			}
			cur = append(cur, &sx{atom: s[i:min(j+1, len(s))]})
			i = j + 1
		default:
			j := i
			for j < len(s) && !strings.ContainsRune("() \n\t\r", rune(s[j])) {
				j++
			}
			cur = append(cur, &sx{atom: s[i:j]})
			i = j
		}
	}
	return cur
}

func (n *sx) String() string {
	if n.list == nil {
		return n.atom
	}
	var parts []string
	for _, c := range n.list {
		parts = append(parts, c.String())
	}
	return "(" + strings.Join(parts, " ") + ")"
}

// bvValue parses #x.., #b.., (_ bvN w), true/false
func bvValue(n *sx) (uint64, bool) {
	if n.list != nil {
		if len(n.list) == 3 && n.list[0].atom == "_" && strings.HasPrefix(n.list[1].atom, "bv") {
			v, err := strconv.ParseUint(n.list[1].atom[2:], 10, 64)
			return v, err == nil
		}
		return 0, false
	}
	a := n.atom
	switch {
	case strings.HasPrefix(a, "#x"):
		v, err := strconv.ParseUint(a[2:], 16, 64)
		return v, err == nil
	case strings.HasPrefix(a, "#b"):
		v, err := strconv.ParseUint(a[2:], 2, 64)
		return v, err == nil
	case a == "true":
		return 1, true
	case a == "false":
		return 0, true
	}
	return 0, false
}

// getValues runs the query plus extra assertions and returns the values of terms (nil if not sat).
func getValues(workdir, tag, baseQuery string, extra []string, terms []string, timeoutS int) ([]uint64, []bool, string) {
	var sb strings.Builder
	// baseQuery ends with (check-sat)\n(get-model)\n : strip them
	q := baseQuery
	if k := strings.LastIndex(q, "(check-sat)"); k >= 0 {
		q = q[:k]
	}
	sb.WriteString(q)
	for _, x := range extra {
		sb.WriteString(x)
		sb.WriteByte('\n')
	}
	sb.WriteString("(check-sat)\n")
	if len(terms) > 0 {
		sb.WriteString("(get-value (" + strings.Join(terms, " ") + "))\n")
	}
	file := filepath.Join(workdir, tag+".smt2")
	os.WriteFile(file, []byte(sb.String()), 0o644)
	defer func() {
		if !keepQueries {
			os.Remove(file)
		}
	}()
	for _, sp := range []solverSpec{allSolvers[0], allSolvers[1]} {
		ctx, cancel := context.WithTimeout(context.Background(), time.Duration(timeoutS+2)*time.Second)
		verdict, out, _ := runOne(ctx, sp, file, timeoutS)
		cancel()
		if verdict == "unsat" {
			return nil, nil, "unsat"
		}
		if verdict != "sat" {
			continue
		}
		if len(terms) == 0 {
			return []uint64{}, []bool{}, "sat"
		}
		k := strings.Index(out, "sat")
		body := out[k+3:]
		nodes := parseSx(body)
		if len(nodes) == 0 || nodes[0].list == nil {
			continue
		}
		vals := make([]uint64, len(terms))
		oks := make([]bool, len(terms))
		pairs := nodes[0].list
		for i := 0; i < len(terms) && i < len(pairs); i++ {
			if pairs[i].list != nil && len(pairs[i].list) == 2 {
				vals[i], oks[i] = bvValue(pairs[i].list[1])
			}
		}
		return vals, oks, "sat"
	}
	return nil, nil, "unknown"
}

// ---------- input description ----------

type inputPlan struct {
	decls   []string // Go statements building the inputs
	argExpr []string
	unsupported string
}

type replayCtx struct {
	e       *Enc
	work    string
	query   string
	extra   []string
	n       int
	imports map[string]bool
	pkg     *types.Package
}

func (rc *replayCtx) values(terms []string) ([]uint64, bool) {
	rc.n++
	vals, oks, verdict := getValues(rc.work, fmt.Sprintf("replay_gv%d", rc.n), rc.query, rc.extra, terms, 20)
	if verdict != "sat" {
		return nil, false
	}
	for _, ok := range oks {
		if !ok {
			return nil, false
		}
	}
	return vals, true
}

func (rc *replayCtx) pin(term string, v uint64, w int) {
	rc.extra = append(rc.extra, fmt.Sprintf("(assert (= %s %s))", term, bvConst(v, w).S))
}

func (rc *replayCtx) typeStr(t types.Type) string {
	return types.TypeString(t, func(p *types.Package) string {
		if p == rc.pkg {
			return ""
		}
		rc.imports[p.Path()] = true
		return p.Name()
	})
}

const maxReplayLen = 4096

// bytesLiteral extracts the content of a byte slice term and renders a Go expression.
func (rc *replayCtx) bytesLiteral(st string, typ types.Type) (string, bool) {
	hd, ok := rc.values([]string{fmt.Sprintf("(s.reg %s)", st), fmt.Sprintf("(s.len %s)", st)})
	if !ok {
		return "", false
	}
	ts := rc.typeStr(typ)
	if hd[0] == 0 {
		return ts + "(nil)", true
	}
	n := hd[1]
	if n > maxReplayLen {
		return "", false
	}
	rc.pin(fmt.Sprintf("(s.len %s)", st), n, 64)
	var terms []string
	for i := uint64(0); i < n; i++ {
		terms = append(terms, fmt.Sprintf("(select (select HE_bv8@0 (s.reg %s)) (bvadd (s.off %s) %s))", st, st, i64(int64(i)).S))
	}
	var bs []uint64
	if n > 0 {
		if !rc.e.predecl["HE_bv8@0"] {
			bs = make([]uint64, n)
		} else {
			bs, ok = rc.values(terms)
			if !ok {
				return "", false
			}
			for i, t := range terms {
				rc.pin(t, bs[i], 8)
			}
		}
	}
	var sb strings.Builder
	sb.WriteString(ts + "{")
	for i, b := range bs {
		if i > 0 {
			sb.WriteString(", ")
		}
		fmt.Fprintf(&sb, "0x%02x", b)
	}
	sb.WriteString("}")
	return sb.String(), true
}

func (rc *replayCtx) valueExpr(term string, typ types.Type, depth int) (string, bool) {
	e := rc.e
	switch u := typ.Underlying().(type) {
	case *types.Basic:
		switch {
		case u.Info()&types.IsBoolean != 0:
			v, ok := rc.values([]string{term})
			if !ok {
				return "", false
			}
			rc.extra = append(rc.extra, fmt.Sprintf("(assert (= %s %v))", term, v[0] != 0))
			return fmt.Sprintf("%s(%v)", rc.typeStr(typ), v[0] != 0), true
		case u.Info()&types.IsInteger != 0:
			v, ok := rc.values([]string{term})
			if !ok {
				return "", false
			}
			w := intWidth(u)
			rc.pin(term, v[0], w)
			if isSigned(typ) {
				return fmt.Sprintf("%s(%d)", rc.typeStr(typ), sext64(v[0], w)), true
			}
			return fmt.Sprintf("%s(%d)", rc.typeStr(typ), v[0]), true
		case u.Info()&types.IsString != 0:
			hd, ok := rc.values([]string{fmt.Sprintf("(strlen %s)", term)})
			if !ok || hd[0] > maxReplayLen {
				return "", false
			}
			rc.pin(fmt.Sprintf("(strlen %s)", term), hd[0], 64)
			var terms []string
			for i := uint64(0); i < hd[0]; i++ {
				terms = append(terms, fmt.Sprintf("(strat %s %s)", term, i64(int64(i)).S))
			}
			var bs []uint64
			if hd[0] > 0 {
				bs, ok = rc.values(terms)
				if !ok {
					return "", false
				}
			}
			b := make([]byte, len(bs))
			for i := range bs {
				b[i] = byte(bs[i])
				rc.pin(terms[i], bs[i], 8)
			}
			return fmt.Sprintf("%s(%s)", rc.typeStr(typ), strconv.Quote(string(b))), true
		}
	case *types.Slice:
		if e.sortOf(u.Elem()) == SBV8 {
			if _, basic := u.Elem().Underlying().(*types.Basic); basic {
				return rc.bytesLiteral(term, typ)
			}
		}
		if depth > 1 {
			return "", false
		}
		hd, ok := rc.values([]string{fmt.Sprintf("(s.reg %s)", term), fmt.Sprintf("(s.len %s)", term)})
		if !ok {
			return "", false
		}
		if hd[0] == 0 {
			return rc.typeStr(typ) + "(nil)", true
		}
		if hd[1] > 64 {
			return "", false
		}
		rc.pin(fmt.Sprintf("(s.len %s)", term), hd[1], 64)
		hn, _ := e.elemHeapName(e.sortOf(u.Elem()))
		if !e.predecl[hn+"@0"] {
			return "", false
		}
		var parts []string
		for i := uint64(0); i < hd[1]; i++ {
			et := fmt.Sprintf("(select (select %s@0 (s.reg %s)) (bvadd (s.off %s) %s))", hn, term, term, i64(int64(i)).S)
			if e.sortOf(u.Elem()) == SSlice {
				rc.extra = append(rc.extra, fmt.Sprintf("(assert (and (= (s.cap %s) (s.len %s)) (= (s.off %s) #x0000000000000000) (bvsle (s.len %s) #x0000000000000100)))", et, et, et, et))
			}
			x, ok := rc.valueExpr(et, u.Elem(), depth+1)
			if !ok {
				return "", false
			}
			parts = append(parts, x)
		}
		return rc.typeStr(typ) + "{" + strings.Join(parts, ", ") + "}", true
	case *types.Pointer:
		v, ok := rc.values([]string{term})
		if !ok {
			return "", false
		}
		if v[0] == 0 {
			return "(" + rc.typeStr(typ) + ")(nil)", true
		}
		st, ok := u.Elem().Underlying().(*types.Struct)
		if !ok || depth > 1 {
			return "", false
		}
		rc.pin(term, v[0], 64)
		var parts []string
		for i := 0; i < st.NumFields(); i++ {
			hn, _ := e.fieldHeapName(u.Elem(), i)
			if !e.predecl[hn+"@0"] {
				continue // field never read: zero value
			}
			ft := fmt.Sprintf("(select %s@0 %s)", hn, term)
			if e.sortOf(st.Field(i).Type()) == SSlice {
				rc.extra = append(rc.extra, fmt.Sprintf("(assert (and (= (s.cap %s) (s.len %s)) (= (s.off %s) #x0000000000000000) (bvsle (s.len %s) #x0000000000001000)))", ft, ft, ft, ft))
			}
			x, ok := rc.valueExpr(ft, st.Field(i).Type(), depth+1)
			if !ok {
				return "", false
			}
			parts = append(parts, st.Field(i).Name()+": "+x)
		}
		return "&" + rc.typeStr(u.Elem()) + "{" + strings.Join(parts, ", ") + "}", true
	case *types.Struct:
		if depth > 1 {
			return "", false
		}
		var parts []string
		srt := e.sortOf(typ)
		for i := 0; i < u.NumFields(); i++ {
			ft := fmt.Sprintf("(%s.%d %s)", srt, i, term)
			x, ok := rc.valueExpr(ft, u.Field(i).Type(), depth+1)
			if !ok {
				return "", false
			}
			parts = append(parts, u.Field(i).Name()+": "+x)
		}
		return rc.typeStr(typ) + "{" + strings.Join(parts, ", ") + "}", true
	case *types.Interface:
		v, ok := rc.values([]string{fmt.Sprintf("(ite (= %s inil) #b1 #b0)", term)})
		if ok && v[0] == 1 {
			return "nil", true
		}
		return "", false
	}
	return "", false
}

// specToGo renders a spec clause as a Go boolean expression using the helper functions of the replay file.
func specToGo(cl Clause) (string, bool) {
	if strings.Contains(cl.Text, "old(") || strings.Contains(cl.Text, "eqold(") || strings.Contains(cl.Text, "fresh(") ||
		strings.Contains(cl.Text, "ret(") || strings.Contains(cl.Text, "called(") || strings.Contains(cl.Text, "typeis(") || strings.Contains(cl.Text, "unbox(") {
		return "", false
	}
	s := rewriteSpec(cl.Text)
	if strings.Contains(s, "ζ") {
		return "", false
	}
	// quantifiers: forall(i, lo, hi, P) -> acvForall(lo, hi, func(i int) bool { return P })
	for _, kw := range []string{"forall", "exists"} {
		for {
			k := strings.Index(s, kw+"(")
			if k < 0 {
				break
			}
			depth, j := 1, k+len(kw)+1
			for j < len(s) && depth > 0 {
				if s[j] == '(' {
					depth++
				} else if s[j] == ')' {
					depth--
				}
				j++
			}
			parts := splitCommas(s[k+len(kw)+1 : j-1])
			if len(parts) != 4 {
				return "", false
			}
			fn := "acvForall"
			if kw == "exists" {
				fn = "acvExists"
			}
			s = s[:k] + fmt.Sprintf("%s(int(%s), int(%s), func(%s int) bool { return %s })", fn, parts[1], parts[2], strings.TrimSpace(parts[0]), parts[3]) + s[j:]
		}
	}
	return s, true
}

const replayHelpers = `
func acvForall(lo, hi int, p func(int) bool) bool { for i := lo; i < hi; i++ { if !p(i) { return false } }; return true }
func acvExists(lo, hi int, p func(int) bool) bool { for i := lo; i < hi; i++ { if p(i) { return true } }; return false }
func le16(b []byte) uint16 { return uint16(b[0]) | uint16(b[1])<<8 }
func le32(b []byte) uint32 { return uint32(b[0]) | uint32(b[1])<<8 | uint32(b[2])<<16 | uint32(b[3])<<24 }
func le64(b []byte) uint64 { return uint64(le32(b)) | uint64(le32(b[4:]))<<32 }
func be16(b []byte) uint16 { return uint16(b[1]) | uint16(b[0])<<8 }
func be32(b []byte) uint32 { return uint32(b[3]) | uint32(b[2])<<8 | uint32(b[1])<<16 | uint32(b[0])<<24 }
func be64(b []byte) uint64 { return uint64(be32(b[4:])) | uint64(be32(b))<<32 }
func sameslice(a, b []byte) bool { return len(a) == len(b) && (len(a) == 0 || &a[0] == &b[0]) }
func eqbytes(a, b []byte) bool { return string(a) == string(b) }
func isnil(x interface{}) bool { return x == nil }
func ite[T any](c bool, a, b T) T { if c { return a }; return b }
`

// replayObligation tries to reproduce a failed obligation on the real code.
func (p *Prog) replayObligation(r *OblResult, workdir, outDir string) *ReplayOutcome {
	e := r.Enc
	fn := e.top
	out := &ReplayOutcome{}
	name := sanitize(r.O.Name)
	if len(name) > 120 {
		name = fmt.Sprintf("%s_%x", name[:100], hashStr(r.O.Name))
	}
	out.Path = filepath.Join(outDir, name+".replay.txt")
	var report strings.Builder
	fmt.Fprintf(&report, "obligation: %s\nkind: %s\nfunction: %s\nposition: %s\nsolver: %s (%s)\n", r.O.Name, r.O.Kind, e.contract.Key, r.O.Pos, r.Res.Solver, r.Res.Verdict)
	if r.O.Text != "" {
		fmt.Fprintf(&report, "clause: %s\n", r.O.Text)
	}
	finish := func() *ReplayOutcome {
		report.WriteString("\n--- solver output (truncated) ---\n")
		so := r.Res.Output
		if len(so) > 6000 {
			so = so[:6000] + "\n...[truncated]"
		}
		report.WriteString(so)
		os.MkdirAll(outDir, 0o755)
		os.WriteFile(out.Path, []byte(report.String()), 0o644)
		return out
	}
	if r.Res.Verdict != "sat" && !r.Relaxed {
		out.Skipped = "no model (" + r.Res.Verdict + ")"
		fmt.Fprintf(&report, "replay: skipped, %s\n", out.Skipped)
		return finish()
	}
	if !r.O.ReplayOK && r.O.Kind != "site-assert" {
		out.Skipped = "obligation kind not replayable by a single call"
		fmt.Fprintf(&report, "replay: skipped, %s\n", out.Skipped)
		return finish()
	}
	if fn.Pkg == nil {
		out.Skipped = "function has no package"
		return finish()
	}
	pre := e.finishPreamble()
	query := e.buildQueryX(pre, r.O, false, r.Relaxed)
	rc := &replayCtx{e: e, work: workdir, query: query, imports: map[string]bool{}, pkg: fn.Pkg.Pkg}
	// shrink: cap = len, off = 0, small lengths; distinct regions for distinct slice parameters
	var shrink []string
	var regs []string
	for i, prm := range fn.Params {
		t := e.paramTerms[i].T.S
		if e.sortOf(prm.Type()) == SSlice {
			shrink = append(shrink, fmt.Sprintf("(assert (and (= (s.cap %s) (s.len %s)) (= (s.off %s) #x0000000000000000)))", t, t, t))
			regs = append(regs, fmt.Sprintf("(s.reg %s)", t))
		}
	}
	for i := 0; i < len(regs); i++ {
		for j := i + 1; j < len(regs); j++ {
			shrink = append(shrink, fmt.Sprintf("(assert (or (not (= %s %s)) (= %s #x0000000000000000)))", regs[i], regs[j], regs[i]))
		}
	}
	chosen := false
	for _, lim := range []int64{32, 256, maxReplayLen} {
		ex := append([]string{}, shrink...)
		for i, prm := range fn.Params {
			if e.sortOf(prm.Type()) == SSlice {
				ex = append(ex, fmt.Sprintf("(assert (bvsle (s.len %s) %s))", e.paramTerms[i].T.S, i64(lim).S))
			}
			if e.sortOf(prm.Type()) == SStr {
				ex = append(ex, fmt.Sprintf("(assert (bvsle (strlen %s) %s))", e.paramTerms[i].T.S, i64(lim).S))
			}
		}
		_, _, verdict := getValues(workdir, "replay_shrink", query, ex, nil, 15)
		if verdict == "sat" {
			rc.extra = ex
			chosen = true
			break
		}
	}
	if !chosen {
		out.Skipped = "model could not be shrunk to replayable size (inputs over 4096 bytes or aliasing parameters needed)"
		fmt.Fprintf(&report, "replay: skipped, %s\n", out.Skipped)
		return finish()
	}
	// build inputs
	var decls, args []string
	for i, prm := range fn.Params {
		x, ok := rc.valueExpr(e.paramTerms[i].T.S, prm.Type(), 0)
		if !ok {
			out.Skipped = fmt.Sprintf("parameter %s of type %s cannot be built from the model", prm.Name(), prm.Type())
			fmt.Fprintf(&report, "replay: skipped, %s\n", out.Skipped)
			return finish()
		}
		v := fmt.Sprintf("in%d", i)
		decls = append(decls, fmt.Sprintf("\t%s := %s\n\t_ = %s", v, x, v))
		args = append(args, v)
	}
	// call expression
	var call string
	recvOff := 0
	if fn.Signature.Recv() != nil {
		call = fmt.Sprintf("%s.%s(%s)", args[0], fn.Name(), strings.Join(args[1:], ", "))
		recvOff = 1
	} else {
		call = fmt.Sprintf("%s(%s)", fn.Name(), strings.Join(args, ", "))
	}
	_ = recvOff
	nres := fn.Signature.Results().Len()
	var lhs []string
	ct := e.contract
	for i := 0; i < nres; i++ {
		if i < len(ct.Results) {
			lhs = append(lhs, ct.Results[i])
		} else {
			lhs = append(lhs, "_")
		}
	}
	var body strings.Builder
	body.WriteString(strings.Join(decls, "\n"))
	body.WriteString("\n")
	// bind contract parameter names for the postcondition
	for i, pn := range ct.Params {
		if i < len(args) && pn != "_" && !strings.HasPrefix(pn, "_p") {
			fmt.Fprintf(&body, "\t%s := %s\n\t_ = %s\n", pn, args[i], pn)
		}
	}
	checkPost := ""
	if r.O.Kind == "ensures" {
		for _, en := range ct.Ensures {
			if en.Text == r.O.Text {
				if g, ok := specToGo(en); ok {
					checkPost = g
				}
			}
		}
		if checkPost == "" {
			out.Skipped = "postcondition uses constructs that cannot be evaluated at run time"
			fmt.Fprintf(&report, "replay: skipped, %s\n", out.Skipped)
			return finish()
		}
	}
	if nres > 0 {
		fmt.Fprintf(&body, "\t%s := %s\n", strings.Join(lhs, ", "), call)
		for _, l := range lhs {
			if l != "_" {
				fmt.Fprintf(&body, "\t_ = %s\n", l)
			}
		}
	} else {
		fmt.Fprintf(&body, "\t%s\n", call)
	}
	if checkPost != "" {
		fmt.Fprintf(&body, "\tpost := func() (ok bool) { defer func() { if recover() != nil { ok = false } }(); return %s }()\n", checkPost)
		body.WriteString("\tfmt.Println(\"ACV-REPLAY-POST:\", post)\n")
	}
	// spec function macros as Go closures
	var macros strings.Builder
	for _, sf := range p.contracts.SpecFuncs {
		if sf.Def == nil || (sf.PkgPath != ct.PkgPath && sf.PkgPath != "") {
			continue
		}
		g, ok := specToGo(*sf.Def)
		if !ok {
			continue
		}
		var ps []string
		for i, pn := range sf.Params {
			ps = append(ps, pn+" "+sf.PTypes[i])
		}
		fmt.Fprintf(&macros, "func %s(%s) %s { return %s }\n", sf.Name, strings.Join(ps, ", "), sf.RType, g)
	}
	var src strings.Builder
	fmt.Fprintf(&src, "package %s\n\nimport (\n\t\"fmt\"\n\t\"runtime/debug\"\n\t\"testing\"\n", fn.Pkg.Pkg.Name())
	for ip := range rc.imports {
		fmt.Fprintf(&src, "\t%q\n", ip)
	}
	src.WriteString(")\n")
	src.WriteString(replayHelpers)
	src.WriteString(macros.String())
	src.WriteString("\nvar _ = fmt.Sprint\nvar _ = debug.Stack\n\nfunc TestACVReplay(t *testing.T) {\n")
	src.WriteString("\tdefer func() {\n\t\tif r := recover(); r != nil {\n\t\t\tfmt.Println(\"ACV-REPLAY-PANIC:\", r)\n\t\t\tfmt.Println(string(debug.Stack()))\n\t\t}\n\t}()\n")
	src.WriteString(body.String())
	src.WriteString("\tfmt.Println(\"ACV-REPLAY-RETURNED\")\n}\n")
	testSrc := src.String()
	fmt.Fprintf(&report, "\n--- replay test (in-package, injected with go test -overlay) ---\n%s\n", testSrc)
	// run
	res, runOut := runOverlayTest(workdir, fn.Pkg.Pkg.Path(), testSrc, "TestACVReplay")
	fmt.Fprintf(&report, "--- replay output ---\n%s\n", runOut)
	switch {
	case res != nil:
		out.Skipped = "replay could not be run: " + res.Error()
	case strings.Contains(runOut, "ACV-REPLAY-PANIC:"):
		// only a panic raised at the obligation's own source position reproduces it (the generated
		// inputs may violate A12 elsewhere, e.g. nil collaborators)
		if r.O.Pos != "" && strings.Contains(runOut, "/"+r.O.Pos) && r.O.Kind != "ensures" && r.O.Kind != "site-assert" {
			out.Reproduced = true
		} else {
			out.Skipped = "replay panicked at a different position than the obligation's"
		}
	case strings.Contains(runOut, "ACV-REPLAY-POST: false"):
		out.Reproduced = true
	case strings.Contains(runOut, "[build failed]") || strings.Contains(runOut, "[setup failed]"):
		out.Skipped = "replay test did not compile"
	}
	out.Output = runOut
	fmt.Fprintf(&report, "replay: reproduced=%v %s\n", out.Reproduced, out.Skipped)
	return finish()
}

// runOverlayTest injects an in-package test into importPath via -overlay and runs it from the harness module.
func runOverlayTest(workdir, importPath, src, testName string) (error, string) {
	rel := strings.TrimPrefix(importPath, modulePath)
	dir := filepath.Join(repoDir, rel)
	tf := filepath.Join(workdir, fmt.Sprintf("replay_%x_test.go", hashStr(src)))
	if err := os.WriteFile(tf, []byte(src), 0o644); err != nil {
		return err, ""
	}
	ov := map[string]map[string]string{"Replace": {filepath.Join(dir, "zz_acv_replay_test.go"): tf}}
	ob, _ := json.Marshal(ov)
	of := tf + ".overlay.json"
	os.WriteFile(of, ob, 0o644)
	defer os.Remove(of)
	defer os.Remove(tf)
	ctx, cancel := context.WithTimeout(context.Background(), 180*time.Second)
	defer cancel()
	bin := tf + ".bin"
	defer os.Remove(bin)
	cmd := exec.CommandContext(ctx, "bash", "-c", fmt.Sprintf("cd %s && go test -c -overlay %s -vet=off -o %s %s 2>&1 && cd %s && (ulimit -v 6291456; %s -test.timeout 60s -test.run '^%s$' -test.v 2>&1)", harnessDir, of, bin, importPath, dir, bin, testName))
	cmd.Env = append(os.Environ(), "GOFLAGS=-mod=mod", "GOPROXY=off", "GOSUMDB=off", "GOTOOLCHAIN=local")
	var buf bytes.Buffer
	cmd.Stdout = &buf
	cmd.Stderr = &buf
	_ = cmd.Run()
	outS := buf.String()
	if len(outS) > 8000 {
		outS = outS[:8000] + "\n...[truncated]"
	}
	return nil, outS
}

var _ = ssa.Function{}
