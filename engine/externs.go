package main

// Builtins and hand-written models of library functions (assumption A7). Every model used in a run
// is listed in the evidence file's trusted_base.

import (
	"fmt"
	"go/types"

	"golang.org/x/tools/go/ssa"
)

type externModel func(f *Frame, instr ssa.Instruction, c *ssa.CallCommon, args []Value, rt types.Type) Value
type externEffect func(f *Frame, c *ssa.CallCommon, eff *effects)

var externModels map[string]externModel
var externEffects map[string]externEffect

const smallN = 16

func byteHeap(e *Enc, st *State) (string, Sort, Term) {
	hn, hs := e.elemHeapName(SBV8)
	return hn, hs, e.heap(st, hn, hs)
}

func effBytes(f *Frame, c *ssa.CallCommon, eff *effects) {
	hn, hs := f.e.elemHeapName(SBV8)
	eff.names[hn] = hs
}

func effNone(f *Frame, c *ssa.CallCommon, eff *effects) {}

func init() {
	externModels = map[string]externModel{}
	externEffects = map[string]externEffect{}
	for _, end := range []struct {
		typ string
		le  bool
	}{{"encoding/binary.littleEndian", true}, {"encoding/binary.bigEndian", false}} {
		for _, w := range []int{16, 32, 64} {
			w, le := w, end.le
			externModels[fmt.Sprintf("(%s).Uint%d", end.typ, w)] = func(f *Frame, instr ssa.Instruction, c *ssa.CallCommon, args []Value, rt types.Type) Value {
				s := args[1].T
				f.check("callee-requires", instr, sle(i64(int64(w/8)), sLen(s)), fmt.Sprintf("Uint%d:len>=%d", w, w/8))
				_, _, h := byteHeap(f.e, f.st)
				return Value{T: f.e.define(f.name("u"), readInt(sel(h, sReg(s)), sOff(s), w/8, le))}
			}
			externEffects[fmt.Sprintf("(%s).Uint%d", end.typ, w)] = effNone
			externModels[fmt.Sprintf("(%s).PutUint%d", end.typ, w)] = func(f *Frame, instr ssa.Instruction, c *ssa.CallCommon, args []Value, rt types.Type) Value {
				s := args[1].T
				v := args[2].T
				f.check("callee-requires", instr, sle(i64(int64(w/8)), sLen(s)), fmt.Sprintf("PutUint%d:len>=%d", w, w/8))
				hn, _, h := byteHeap(f.e, f.st)
				row := sel(h, sReg(s))
				n := w / 8
				for k := 0; k < n; k++ {
					bi := k
					if !le {
						bi = n - 1 - k
					}
					b := Term{S: fmt.Sprintf("((_ extract %d %d) %s)", bi*8+7, bi*8, v.S), Sort: SBV8}
					if v.isC {
						b = bvConst((v.c>>uint(bi*8))&0xff, 8)
					}
					row = store(row, bvAdd(sOff(s), i64(int64(k))), b)
				}
				f.e.setHeap(f.st, hn, store(h, sReg(s), row))
				return Value{}
			}
			externEffects[fmt.Sprintf("(%s).PutUint%d", end.typ, w)] = effBytes
		}
	}
	externModels["bytes.Equal"] = func(f *Frame, instr ssa.Instruction, c *ssa.CallCommon, args []Value, rt types.Type) Value {
		return Value{T: f.bytesEqual(args[0].T, args[1].T)}
	}
	externEffects["bytes.Equal"] = effNone
	externModels["crypto/subtle.ConstantTimeCompare"] = func(f *Frame, instr ssa.Instruction, c *ssa.CallCommon, args []Value, rt types.Type) Value {
		return Value{T: ite(f.bytesEqual(args[0].T, args[1].T), i64(1), i64(0))}
	}
	externEffects["crypto/subtle.ConstantTimeCompare"] = effNone
	externModels["bytes.Index"] = func(f *Frame, instr ssa.Instruction, c *ssa.CallCommon, args []Value, rt types.Type) Value {
		e := f.e
		s, sep := args[0].T, args[1].T
		r := e.havoc(f.name("idx"), SBV64)
		// r == -1 || 0 <= r && r + len(sep) <= len(s) && s[r:r+len(sep)] == sep ; r is the first such position
		fits := and(sle(i64(0), r), sle(r, sLen(s)), sle(bvAdd(r, sLen(sep)), sLen(s)))
		e.assume(or(eq(r, i64(-1)), fits))
		_, _, h := byteHeap(e, f.st)
		if sLen(sep).isC && sLen(sep).c <= smallN {
			var eqs []Term
			for k := uint64(0); k < sLen(sep).c; k++ {
				eqs = append(eqs, eq(sel(sel(h, sReg(s)), bvAdd(bvAdd(sOff(s), r), i64(int64(k)))), sel(sel(h, sReg(sep)), bvAdd(sOff(sep), i64(int64(k))))))
			}
			e.assume(implies(not(eq(r, i64(-1))), and(eqs...)))
		}
		return Value{T: r}
	}
	externEffects["bytes.Index"] = effNone
	for _, nm := range []string{"Intn", "Int31n", "Int63n"} {
		nm := nm
		externModels["(*math/rand.Rand)."+nm] = func(f *Frame, instr ssa.Instruction, c *ssa.CallCommon, args []Value, rt types.Type) Value {
			e := f.e
			n := args[1].T
			w := n.Sort.bvWidth()
			f.check("callee-requires", instr, bvCmp("bvsgt", n, bvConst(0, w)), nm+":n>0")
			r := e.havoc(f.name("rnd"), n.Sort)
			e.assume(and(bvCmp("bvsle", bvConst(0, w), r), bvCmp("bvslt", r, n)))
			return Value{T: r}
		}
		externEffects["(*math/rand.Rand)."+nm] = effNone
	}
	externModels["reflect.DeepEqual"] = func(f *Frame, instr ssa.Instruction, c *ssa.CallCommon, args []Value, rt types.Type) Value {
		e := f.e
		r := e.havoc(f.name("deq"), SBool)
		a, b := args[0].T, args[1].T
		if a.Sort == SIface && b.Sort == SIface {
			e.assume(implies(r, and(eq(app(SBV64, "itag", a), app(SBV64, "itag", b)), eq(eq(a, sym("inil", SIface)), eq(b, sym("inil", SIface))))))
			e.assume(implies(eq(a, b), r))
		}
		return Value{T: r}
	}
	externEffects["reflect.DeepEqual"] = effNone
	externModels["errors.Is"] = func(f *Frame, instr ssa.Instruction, c *ssa.CallCommon, args []Value, rt types.Type) Value {
		e := f.e
		e.predeclare("uf_errors_is", "(declare-fun uf_errors_is (Iface Iface) Bool)")
		a, b := args[0].T, args[1].T
		nilI := sym("inil", SIface)
		// nil never "is" a non-nil target; an error is itself; otherwise a deterministic unknown (wrapping chains)
		r := ite(eq(a, b), tTrue, ite(eq(a, nilI), tFalse, app(SBool, "uf_errors_is", a, b)))
		return Value{T: e.defineBool(f.name("eis"), r)}
	}
	externEffects["errors.Is"] = effNone
	externModels["errors.New"] = func(f *Frame, instr ssa.Instruction, c *ssa.CallCommon, args []Value, rt types.Type) Value {
		r := f.e.havoc(f.name("err"), SIface)
		f.e.assume(not(eq(r, sym("inil", SIface))))
		return Value{T: r}
	}
	externEffects["errors.New"] = effNone
	externModels["fmt.Errorf"] = externModels["errors.New"]
	externEffects["fmt.Errorf"] = effNone
	externModels["io.ReadFull"] = func(f *Frame, instr ssa.Instruction, c *ssa.CallCommon, args []Value, rt types.Type) Value {
		e := f.e
		buf := args[1].T
		f.havocValue(buf, c.Args[1].Type(), 1)
		n := e.havoc(f.name("n"), SBV64)
		er := e.havoc(f.name("err"), SIface)
		e.assume(and(sle(i64(0), n), sle(n, sLen(buf))))
		e.assume(implies(eq(er, sym("inil", SIface)), eq(n, sLen(buf))))
		return Value{Tuple: []Value{{T: n}, {T: er}}}
	}
	externEffects["io.ReadFull"] = effBytes
	externModels["crypto/rand.Read"] = externModels["io.ReadFull"]
	externModels["crypto/rand.Read"] = func(f *Frame, instr ssa.Instruction, c *ssa.CallCommon, args []Value, rt types.Type) Value {
		e := f.e
		buf := args[0].T
		f.havocValue(buf, c.Args[0].Type(), 1)
		n := e.havoc(f.name("n"), SBV64)
		er := e.havoc(f.name("err"), SIface)
		e.assume(and(sle(i64(0), n), sle(n, sLen(buf))))
		e.assume(implies(eq(er, sym("inil", SIface)), eq(n, sLen(buf))))
		return Value{Tuple: []Value{{T: n}, {T: er}}}
	}
	externEffects["crypto/rand.Read"] = effBytes
	externModels["strconv.ParseInt"] = func(f *Frame, instr ssa.Instruction, c *ssa.CallCommon, args []Value, rt types.Type) Value {
		e := f.e
		e.predeclare("uf_parseint", "(declare-fun uf_parseint (Str (_ BitVec 64)) (_ BitVec 64))\n(declare-fun uf_parseint_ok (Str (_ BitVec 64) (_ BitVec 64)) Bool)")
		s, base, bits := args[0].T, args[1].T, args[2].T
		ok := app(SBool, "uf_parseint_ok", s, base, bits)
		v := e.define(f.name("pi"), ite(ok, app(SBV64, "uf_parseint", s, base), i64(0)))
		er := e.havoc(f.name("err"), SIface)
		e.assume(eq(eq(er, sym("inil", SIface)), ok))
		// range: err == nil ==> -2^(bits-1) <= v < 2^(bits-1)   (bits == 0 means 64)
		for _, b := range []int64{8, 16, 32} {
			lim := int64(1) << uint(b-1)
			e.assume(implies(and(ok, eq(bits, i64(b))), and(sle(i64(-lim), v), slt(v, i64(lim)))))
		}
		// a value accepted for a narrower width is accepted for wider ones with the same value
		return Value{Tuple: []Value{{T: v}, {T: er}}}
	}
	externEffects["strconv.ParseInt"] = effNone
	externModels["strconv.Atoi"] = func(f *Frame, instr ssa.Instruction, c *ssa.CallCommon, args []Value, rt types.Type) Value {
		e := f.e
		e.predeclare("uf_parseint", "(declare-fun uf_parseint (Str (_ BitVec 64)) (_ BitVec 64))\n(declare-fun uf_parseint_ok (Str (_ BitVec 64) (_ BitVec 64)) Bool)")
		s := args[0].T
		ok := app(SBool, "uf_parseint_ok", s, i64(10), i64(0))
		v := e.define(f.name("pi"), ite(ok, app(SBV64, "uf_parseint", s, i64(10)), i64(0)))
		er := e.havoc(f.name("err"), SIface)
		e.assume(eq(eq(er, sym("inil", SIface)), ok))
		return Value{Tuple: []Value{{T: v}, {T: er}}}
	}
	externEffects["strconv.Atoi"] = effNone
	// (fs.FileMode).Perm(): the nine permission bits
	externModels["(io/fs.FileMode).Perm"] = func(f *Frame, instr ssa.Instruction, c *ssa.CallCommon, args []Value, rt types.Type) Value {
		return Value{T: f.e.define(f.name("perm"), app(bvSort(32), "bvand", args[0].T, bvConst(0x1ff, 32)))}
	}
	externEffects["(io/fs.FileMode).Perm"] = effNone
	// strings.Split(s, sep) with a non-empty separator: a fresh slice of at least one string; the first part is a prefix
	// of s; when there are at least two parts the separator follows the first part in s; with exactly two parts the
	// second one is the rest of s after that separator. (Nothing is said about the parts in between.)
	externModels["strings.Split"] = func(f *Frame, instr ssa.Instruction, c *ssa.CallCommon, args []Value, rt types.Type) Value {
		e := f.e
		sv, sep := args[0].T, args[1].T
		slen, seplen := app(SBV64, "strlen", sv), app(SBV64, "strlen", sep)
		reg := e.alloc(f.st, f.name("split_reg"))
		n := e.havoc(f.name("split_n"), SBV64)
		r := mkSlice(reg, i64(0), n, n)
		e.assume(and(sle(i64(1), n), sle(n, i64(1<<40))))
		hn, hs := e.elemHeapName(SStr)
		arr := e.havoc(f.name("split_arr"), arraySort(SBV64, SStr))
		e.setHeap(f.st, hn, store(e.heap(f.st, hn, hs), reg, arr))
		nonEmptySep := slt(i64(0), seplen)
		p0 := sel(arr, i64(0))
		p0len := app(SBV64, "strlen", p0)
		e.assume(implies(nonEmptySep, and(sle(i64(0), p0len), sle(p0len, slen))))
		q := e.qvar()
		e.assume(Term{S: fmt.Sprintf("(forall ((%s (_ BitVec 64))) (! (=> (and %s (bvsle #x0000000000000000 %s) (bvslt %s %s)) (= (strat %s %s) (strat %s %s))) :pattern ((strat %s %s))))",
			q, nonEmptySep.S, q, q, p0len.S, p0.S, q, sv.S, q, p0.S, q), Sort: SBool})
		two := and(nonEmptySep, sle(i64(2), n))
		e.assume(implies(two, sle(bvAdd(p0len, seplen), slen)))
		q2 := e.qvar()
		e.assume(Term{S: fmt.Sprintf("(forall ((%s (_ BitVec 64))) (! (=> (and %s (bvsle #x0000000000000000 %s) (bvslt %s %s)) (= (strat %s (bvadd %s %s)) (strat %s %s))) :pattern ((strat %s %s))))",
			q2, two.S, q2, q2, seplen.S, sv.S, p0len.S, q2, sep.S, q2, sep.S, q2), Sort: SBool})
		exactly2 := and(nonEmptySep, eq(n, i64(2)))
		p1 := sel(arr, i64(1))
		p1len := app(SBV64, "strlen", p1)
		e.assume(implies(exactly2, eq(bvAdd(bvAdd(p0len, seplen), p1len), slen)))
		q3 := e.qvar()
		e.assume(Term{S: fmt.Sprintf("(forall ((%s (_ BitVec 64))) (! (=> (and %s (bvsle #x0000000000000000 %s) (bvslt %s %s)) (= (strat %s %s) (strat %s (bvadd (bvadd %s %s) %s)))) :pattern ((strat %s %s))))",
			q3, exactly2.S, q3, q3, p1len.S, p1.S, q3, sv.S, p0len.S, seplen.S, q3, p1.S, q3), Sort: SBool})
		// every part is a string of sane length
		q4 := e.qvar()
		e.assume(Term{S: fmt.Sprintf("(forall ((%s (_ BitVec 64))) (! (and (bvsle #x0000000000000000 (strlen (select %s %s))) (bvsle (strlen (select %s %s)) %s)) :pattern ((select %s %s))))",
			q4, arr.S, q4, arr.S, q4, slen.S, arr.S, q4), Sort: SBool})
		return Value{T: r}
	}
	externEffects["strings.Split"] = func(f *Frame, c *ssa.CallCommon, eff *effects) {
		hn, hs := f.e.elemHeapName(SStr)
		eff.names[hn] = hs
		eff.alloc = true
	}
	// strings.HasSuffix / HasPrefix: a deterministic predicate of both strings; when true the first string is at
	// least as long as the second and has length >= 0 (all that the guarded s[:len(s)-len(suffix)] idiom needs).
	for _, nm := range []string{"HasSuffix", "HasPrefix"} {
		nm := nm
		externModels["strings."+nm] = func(f *Frame, instr ssa.Instruction, c *ssa.CallCommon, args []Value, rt types.Type) Value {
			e := f.e
			strT := types.Typ[types.String]
			// same uninterpreted function as the generic deterministic-library model (gouf_bool("strings.HasPrefix", …) in specs)
			b := e.defineBool(f.name("hs"), f.ufResult("strings."+nm, 0, args, []types.Type{strT, strT}, types.Typ[types.Bool]))
			e.assume(implies(b, sle(app(SBV64, "strlen", args[1].T), app(SBV64, "strlen", args[0].T))))
			return Value{T: b}
		}
		externEffects["strings."+nm] = effNone
	}
}

// readInt builds the integer read from row[off .. off+n) in the given byte order.
func readInt(row, off Term, n int, le bool) Term {
	parts := make([]Term, n) // most significant first
	for k := 0; k < n; k++ {
		idx := k
		if le {
			idx = n - 1 - k
		}
		parts[k] = sel(row, bvAdd(off, i64(int64(idx))))
	}
	if n == 1 {
		return parts[0]
	}
	return app(bvSort(n*8), "concat", parts...)
}

// bytesEqual: a fresh Bool r with r => (len equal and all bytes equal), !r => (len differ or a witness differs).
func (f *Frame) bytesEqual(a, b Term) Term {
	t, side := bytesEqualTerm(f.e, f.st, a, b)
	r := f.e.defineBool(f.name("beq"), t)
	for _, s := range side {
		f.e.assume(implies(s, r))
	}
	return r
}

// bytesEqualTerm is the content equality the bytes.Equal model uses, as a term over the byte heap of st, with
// the sufficient conditions the model assumes (same slice, both empty). The spec builtin eqcontent(a, b)
// produces the same term, so a contract can speak about "the two values have the same bytes" in exactly the
// vocabulary the code's own comparison is modelled in.
func bytesEqualTerm(e *Enc, st *State, a, b Term) (Term, []Term) {
	_, _, h := byteHeap(e, st)
	ra, rb := sel(h, sReg(a)), sel(h, sReg(b))
	la, lb := sLen(a), sLen(b)
	n := la
	if !n.isC {
		n = lb
	}
	if n.isC && n.c <= smallN {
		eqs := []Term{eq(la, lb)}
		for k := uint64(0); k < n.c; k++ {
			eqs = append(eqs, eq(sel(ra, bvAdd(sOff(a), i64(int64(k)))), sel(rb, bvAdd(sOff(b), i64(int64(k))))))
		}
		return and(eqs...), nil
	}
	// general lengths: an uninterpreted content-equality predicate (no quantifier): reflexive, implies equal
	// lengths; element-wise consequences are not derived (they are for constant lengths, above)
	e.predeclare("eqcontent", fmt.Sprintf("(declare-fun eqcontent (%s (_ BitVec 64) %s (_ BitVec 64) (_ BitVec 64)) Bool)", arraySort(SBV64, SBV8), arraySort(SBV64, SBV8)))
	t := and(eq(la, lb), app(SBool, "eqcontent", ra, sOff(a), rb, sOff(b), la))
	return t, []Term{and(eq(la, lb), eq(sReg(a), sReg(b)), eq(sOff(a), sOff(b))), and(eq(la, i64(0)), eq(lb, i64(0)))}
}

func (f *Frame) builtin(instr ssa.Instruction, b *ssa.Builtin, c *ssa.CallCommon, args []Value, rt types.Type) Value {
	e := f.e
	switch b.Name() {
	case "len":
		t := e.valTerm(args[0], c.Args[0].Type())
		switch u := c.Args[0].Type().Underlying().(type) {
		case *types.Slice:
			return Value{T: sLen(t)}
		case *types.Basic:
			return Value{T: app(SBV64, "strlen", t)}
		case *types.Array:
			return Value{T: i64(u.Len())}
		case *types.Pointer:
			if arr, ok := u.Elem().Underlying().(*types.Array); ok {
				return Value{T: i64(arr.Len())}
			}
		case *types.Map:
			r := e.define(f.name("maplen"), ite(eq(t, i64(0)), i64(0), e.mapLen(f.st, u, t)))
			e.assume(and(sle(i64(0), r), sle(r, i64(1<<40))))
			return Value{T: r}
		}
		r := e.havoc(f.name("len"), SBV64)
		e.assume(sle(i64(0), r))
		return Value{T: r}
	case "cap":
		t := e.valTerm(args[0], c.Args[0].Type())
		switch u := c.Args[0].Type().Underlying().(type) {
		case *types.Slice:
			return Value{T: sCap(t)}
		case *types.Array:
			return Value{T: i64(u.Len())}
		}
		r := e.havoc(f.name("cap"), SBV64)
		e.assume(sle(i64(0), r))
		return Value{T: r}
	case "append":
		return Value{T: f.appendModel(instr, c, args)}
	case "copy":
		return Value{T: f.copyModel(instr, c, args)}
	case "delete":
		mt := c.Args[0].Type().Underlying().(*types.Map)
		m, k := args[0].T, args[1].T
		pn, ps, _, _ := e.mapHeaps(mt)
		ph := e.heap(f.st, pn, ps)
		e.setHeap(f.st, pn, store(ph, m, store(sel(ph, m), k, tFalse)))
		return Value{}
	case "print", "println":
		return Value{}
	case "recover":
		e.note("recover() modelled as returning nil")
		return Value{T: sym("inil", SIface)}
	case "min", "max":
		if len(args) == 2 && args[0].T.Sort.bvWidth() > 0 {
			signed := isSigned(c.Args[0].Type())
			op := "bvult"
			if signed {
				op = "bvslt"
			}
			lt := bvCmp(op, args[0].T, args[1].T)
			if b.Name() == "min" {
				return Value{T: ite(lt, args[0].T, args[1].T)}
			}
			return Value{T: ite(lt, args[1].T, args[0].T)}
		}
	case "ssa:wrapnilchk":
		return args[0]
	}
	e.note("unmodelled builtin " + b.Name())
	return f.havocTyped(b.Name(), rt)
}

// copyModel: n = min(len(dst), len(src)); dst[0:n] = old src[0:n] (memmove semantics).
func (f *Frame) copyModel(instr ssa.Instruction, c *ssa.CallCommon, args []Value) Term {
	e := f.e
	dst := args[0].T
	srcT := c.Args[1].Type()
	dt := c.Args[0].Type().Underlying().(*types.Slice)
	el := e.sortOf(dt.Elem())
	hn, hs := e.elemHeapName(el)
	h := e.heap(f.st, hn, hs)
	var srcLen Term
	var srcAt func(i Term) Term
	if e.sortOf(srcT) == SStr {
		s := args[1].T
		srcLen = app(SBV64, "strlen", s)
		srcAt = func(i Term) Term { return app(SBV8, "strat", s, i) }
	} else {
		s := args[1].T
		srcLen = sLen(s)
		row := sel(h, sReg(s))
		srcAt = func(i Term) Term { return sel(row, bvAdd(sOff(s), i)) }
	}
	n := e.define(f.name("cpn"), ite(slt(sLen(dst), srcLen), sLen(dst), srcLen))
	if sLen(dst).isC && srcLen.isC {
		nn := sLen(dst).c
		if srcLen.c < nn {
			nn = srcLen.c
		}
		n = i64(int64(nn))
	}
	drow := sel(h, sReg(dst))
	if n.isC && n.c <= smallN {
		nr := drow
		for k := uint64(0); k < n.c; k++ {
			nr = store(nr, bvAdd(sOff(dst), i64(int64(k))), srcAt(i64(int64(k))))
		}
		e.setHeap(f.st, hn, store(h, sReg(dst), nr))
		return n
	}
	nr := e.havoc(f.name("cprow"), arraySort(SBV64, el))
	q := e.qvar()
	qi := sym(q, SBV64)
	rel := bvSub(qi, sOff(dst))
	body := eq(sel(nr, qi), ite(ult(rel, n), srcAt(rel), sel(drow, qi)))
	e.assume(Term{S: fmt.Sprintf("(forall ((%s (_ BitVec 64))) (! %s :pattern ((select %s %s))))", q, body.S, nr.S, q), Sort: SBool})
	e.setHeap(f.st, hn, store(h, sReg(dst), nr))
	return n
}

// appendModel: exact Go semantics, in place when len+n <= cap, otherwise a fresh region.
func (f *Frame) appendModel(instr ssa.Instruction, c *ssa.CallCommon, args []Value) Term {
	e := f.e
	s := args[0].T
	st := c.Args[0].Type().Underlying().(*types.Slice)
	el := e.sortOf(st.Elem())
	hn, hs := e.elemHeapName(el)
	h := e.heap(f.st, hn, hs)
	var addLen Term
	var addAt func(i Term) Term
	if e.sortOf(c.Args[1].Type()) == SStr {
		a := args[1].T
		addLen = app(SBV64, "strlen", a)
		addAt = func(i Term) Term { return app(SBV8, "strat", a, i) }
	} else {
		a := args[1].T
		addLen = sLen(a)
		arow := sel(h, sReg(a))
		addAt = func(i Term) Term { return sel(arow, bvAdd(sOff(a), i)) }
	}
	name := f.name("app")
	newLen := e.define(name+"_len", bvAdd(sLen(s), addLen))
	inPlace := e.defineBool(name+"_inplace", sle(newLen, sCap(s)))
	// encode-time check: if the append provably stays within capacity here, use the quantifier-free in-place form
	if addLen.isC && addLen.c <= smallN && e.provedNow(f.guard, inPlace) {
		row := sel(h, sReg(s))
		start := bvAdd(sOff(s), sLen(s))
		nr := row
		for k := uint64(0); k < addLen.c; k++ {
			nr = store(nr, bvAdd(start, i64(int64(k))), addAt(i64(int64(k))))
		}
		e.setHeap(f.st, hn, store(h, sReg(s), nr))
		e.assume(implies(f.guard, sle(newLen, i64(1<<48))))
		return e.define(name, mkSlice(sReg(s), sOff(s), newLen, sCap(s)))
	}
	freshReg := e.alloc(f.st, name+"_reg")
	freshCap := e.havoc(name+"_cap", SBV64)
	e.assume(and(sle(newLen, freshCap), sle(freshCap, i64(1<<48))))
	// total length stays within the address space (runtime would panic/oom otherwise)
	e.assume(sle(newLen, i64(1<<48)))
	reg := e.define(name+"_r", ite(inPlace, sReg(s), freshReg))
	off := e.define(name+"_o", ite(inPlace, sOff(s), i64(0)))
	cp := e.define(name+"_c", ite(inPlace, sCap(s), freshCap))
	oldRow := e.define(name+"_old", sel(h, sReg(s)))
	start := e.define(name+"_st", bvAdd(off, sLen(s)))
	zero := e.zero(st.Elem())
	// one element-wise definition of the target row (no array-level ite, so that E-matching on (select row q) works):
	//   appended part | in place: untouched old row | fresh: copy of the old elements, zero elsewhere
	nr := e.havoc(name+"_row", arraySort(SBV64, el))
	q := e.qvar()
	qi := sym(q, SBV64)
	freshVal := ite(and(sle(i64(0), qi), slt(qi, sLen(s))), sel(oldRow, bvAdd(sOff(s), qi)), zero)
	body := eq(sel(nr, qi), ite(and(sle(start, qi), slt(qi, bvAdd(start, addLen))), addAt(bvSub(qi, start)), ite(inPlace, sel(oldRow, qi), freshVal)))
	e.assume(Term{S: fmt.Sprintf("(forall ((%s (_ BitVec 64))) (! %s :pattern ((select %s %s))))", q, body.S, nr.S, q), Sort: SBool})
	if addLen.isC && addLen.c <= smallN {
		// explicit facts for the appended elements (useful to the quantifier-free slice)
		for k := uint64(0); k < addLen.c; k++ {
			e.assume(eq(sel(nr, bvAdd(start, i64(int64(k)))), addAt(i64(int64(k)))))
		}
	}
	e.setHeap(f.st, hn, store(h, reg, nr))
	return e.define(name, mkSlice(reg, off, newLen, cp))
}

// ---------- bytes.Buffer (ghost length + contents per buffer object) ----------

func bufHeaps(e *Enc, st *State) (ln Term, data Term) {
	return e.heap(st, "HB_len", arraySort(SRef, SBV64)), e.heap(st, "HB_data", arraySort(SRef, arraySort(SBV64, SBV8)))
}

func effBuf(f *Frame, c *ssa.CallCommon, eff *effects) {
	eff.names["HB_len"] = arraySort(SRef, SBV64)
	eff.names["HB_data"] = arraySort(SRef, arraySort(SBV64, SBV8))
}

func (f *Frame) bufAppend(b Term, n Term, at func(i Term) Term) {
	e := f.e
	ln, data := bufHeaps(e, f.st)
	old := e.define(f.name("bl"), sel(ln, b))
	e.assume(implies(f.guard, and(sle(i64(0), old), sle(old, i64(1<<40)))))
	row := sel(data, b)
	var nr Term
	if n.isC && n.c <= smallN {
		nr = row
		for k := uint64(0); k < n.c; k++ {
			nr = store(nr, bvAdd(old, i64(int64(k))), at(i64(int64(k))))
		}
	} else {
		nr = e.havoc(f.name("brow"), arraySort(SBV64, SBV8))
		q := e.qvar()
		qi := sym(q, SBV64)
		body := eq(sel(nr, qi), ite(and(sle(old, qi), slt(qi, bvAdd(old, n))), at(bvSub(qi, old)), sel(row, qi)))
		e.assume(Term{S: fmt.Sprintf("(forall ((%s (_ BitVec 64))) (! %s :pattern ((select %s %s))))", q, body.S, nr.S, q), Sort: SBool})
	}
	e.setHeap(f.st, "HB_data", store(data, b, nr))
	e.setHeap(f.st, "HB_len", store(ln, b, bvAdd(old, n)))
}

func init() {
	nilErr := sym("inil", SIface)
	externModels["(*bytes.Buffer).Len"] = func(f *Frame, instr ssa.Instruction, c *ssa.CallCommon, args []Value, rt types.Type) Value {
		ln, _ := bufHeaps(f.e, f.st)
		r := f.e.define(f.name("blen"), sel(ln, args[0].T))
		f.e.assume(implies(f.guard, and(sle(i64(0), r), sle(r, i64(1<<40)))))
		return Value{T: r}
	}
	externEffects["(*bytes.Buffer).Len"] = effNone
	externModels["(*bytes.Buffer).Grow"] = func(f *Frame, instr ssa.Instruction, c *ssa.CallCommon, args []Value, rt types.Type) Value {
		f.check("callee-requires", instr, sle(i64(0), args[1].T), "Grow:n>=0")
		return Value{}
	}
	externEffects["(*bytes.Buffer).Grow"] = effNone
	externModels["(*bytes.Buffer).Reset"] = func(f *Frame, instr ssa.Instruction, c *ssa.CallCommon, args []Value, rt types.Type) Value {
		ln, _ := bufHeaps(f.e, f.st)
		f.e.setHeap(f.st, "HB_len", store(ln, args[0].T, i64(0)))
		return Value{}
	}
	externEffects["(*bytes.Buffer).Reset"] = effBuf
	externModels["(*bytes.Buffer).Truncate"] = func(f *Frame, instr ssa.Instruction, c *ssa.CallCommon, args []Value, rt types.Type) Value {
		ln, _ := bufHeaps(f.e, f.st)
		f.check("callee-requires", instr, and(sle(i64(0), args[1].T), sle(args[1].T, sel(ln, args[0].T))), "Truncate:0<=n<=Len")
		f.e.setHeap(f.st, "HB_len", store(ln, args[0].T, args[1].T))
		return Value{}
	}
	externEffects["(*bytes.Buffer).Truncate"] = effBuf
	externModels["(*bytes.Buffer).Write"] = func(f *Frame, instr ssa.Instruction, c *ssa.CallCommon, args []Value, rt types.Type) Value {
		e := f.e
		p := args[1].T
		_, _, h := byteHeap(e, f.st)
		row := sel(h, sReg(p))
		f.bufAppend(args[0].T, sLen(p), func(i Term) Term { return sel(row, bvAdd(sOff(p), i)) })
		return Value{Tuple: []Value{{T: sLen(p)}, {T: nilErr}}}
	}
	externEffects["(*bytes.Buffer).Write"] = effBuf
	externModels["(*bytes.Buffer).WriteString"] = func(f *Frame, instr ssa.Instruction, c *ssa.CallCommon, args []Value, rt types.Type) Value {
		s := args[1].T
		n := app(SBV64, "strlen", s)
		f.e.assume(implies(f.guard, sle(i64(0), n)))
		f.bufAppend(args[0].T, n, func(i Term) Term { return app(SBV8, "strat", s, i) })
		return Value{Tuple: []Value{{T: n}, {T: nilErr}}}
	}
	externEffects["(*bytes.Buffer).WriteString"] = effBuf
	externModels["(*bytes.Buffer).WriteByte"] = func(f *Frame, instr ssa.Instruction, c *ssa.CallCommon, args []Value, rt types.Type) Value {
		b := args[1].T
		f.bufAppend(args[0].T, i64(1), func(i Term) Term { return b })
		return Value{T: nilErr}
	}
	externEffects["(*bytes.Buffer).WriteByte"] = effBuf
	externModels["(*bytes.Buffer).Bytes"] = func(f *Frame, instr ssa.Instruction, c *ssa.CallCommon, args []Value, rt types.Type) Value {
		e := f.e
		ln, data := bufHeaps(e, f.st)
		n := sel(ln, args[0].T)
		e.assume(implies(f.guard, and(sle(i64(0), n), sle(n, i64(1<<40)))))
		reg := e.alloc(f.st, f.name("bbytes"))
		cp := e.havoc(f.name("bcap"), SBV64)
		e.assume(and(sle(n, cp), sle(cp, i64(1<<40))))
		hn, hs, h := byteHeap(e, f.st)
		_ = hs
		e.setHeap(f.st, hn, store(h, reg, sel(data, args[0].T)))
		e.note("bytes.Buffer.Bytes(): returned slice modelled as a snapshot (later writes to the buffer are not visible through it)")
		return Value{T: e.define(f.name("bb"), mkSlice(reg, i64(0), n, cp))}
	}
	externEffects["(*bytes.Buffer).Bytes"] = effBytes
}
