package main

// Loading /repo through go/packages (harness module, -tags=verif, stub gothemis) and building SSA.

import (
	"fmt"
	"go/ast"
	"go/constant"
	"go/parser"
	"go/token"
	"go/types"
	"os"
	"path/filepath"
	"sort"
	"strings"

	"golang.org/x/tools/go/ast/astutil"
	"golang.org/x/tools/go/packages"
	"golang.org/x/tools/go/ssa"
	"golang.org/x/tools/go/ssa/ssautil"
)

const modulePath = "github.com/cossacklabs/acra"

var (
	repoDir    = envOr("ACV_REPO", "/repo")
	verifDir   = envOr("ACV_VERIF", "/verif")
	harnessDir = filepath.Join(verifDir, "harness")
)

func envOr(k, d string) string {
	if v := os.Getenv(k); v != "" {
		return v
	}
	return d
}

type Prog struct {
	roFields map[string]bool
	renames  map[*ssa.Function]*renameInfo
	pkgs      []*packages.Package
	byPath    map[string]*packages.Package
	prog      *ssa.Program
	ssaPkgs   map[string]*ssa.Package
	contracts *ContractSet
	fset      *token.FileSet
	targets   map[string]bool
	funcs     map[string]*ssa.Function
	overlay   map[string][]byte
	fileCache map[string]*ast.File
}

// contractFiles finds all zz_contracts_verif.go under /repo; returns import path -> file.
func contractFiles() map[string]string {
	out := map[string]string{}
	filepath.Walk(repoDir, func(path string, info os.FileInfo, err error) error {
		if err != nil {
			return nil
		}
		if info.IsDir() {
			n := info.Name()
			if n == ".git" || n == "node_modules" || n == "vendor" {
				return filepath.SkipDir
			}
			return nil
		}
		if info.Name() == "zz_contracts_verif.go" {
			rel, _ := filepath.Rel(repoDir, filepath.Dir(path))
			ip := modulePath
			if rel != "." {
				ip += "/" + filepath.ToSlash(rel)
			}
			out[ip] = path
		}
		return nil
	})
	return out
}

// filePropsIndex returns the property ids mentioned on "props" lines of a contract file.
func fileProps(path string, overlay map[string][]byte) map[string]bool {
	var b []byte
	if ov, ok := overlay[path]; ok {
		b = ov
	} else {
		b, _ = os.ReadFile(path)
	}
	out := map[string]bool{}
	for _, line := range strings.Split(string(b), "\n") {
		line = strings.TrimSpace(line)
		if !strings.HasPrefix(line, "//@") {
			continue
		}
		fs := strings.Fields(line[3:])
		for i, w := range fs {
			if w == "props" {
				for _, p := range fs[i+1:] {
					if p == ":" {
						break
					}
					out[p] = true
				}
			}
		}
	}
	return out
}

func loadProg(pkgPaths []string, overlay map[string][]byte) (*Prog, error) {
	cfg := &packages.Config{
		Mode:       packages.LoadSyntax,
		Dir:        harnessDir,
		BuildFlags: []string{"-tags=verif"},
		Env:        append(os.Environ(), "GOFLAGS=-mod=mod", "GOPROXY=off", "GOSUMDB=off", "GOTOOLCHAIN=local"),
		Overlay:    overlay,
	}
	pkgs, err := packages.Load(cfg, pkgPaths...)
	if err != nil {
		return nil, err
	}
	var errs []string
	for _, p := range pkgs {
		for _, e := range p.Errors {
			errs = append(errs, e.Error())
		}
	}
	if len(errs) > 0 {
		if len(errs) > 10 {
			errs = errs[:10]
		}
		return nil, fmt.Errorf("tree does not type-check:\n%s", strings.Join(errs, "\n"))
	}
	prog, spkgs := ssautil.Packages(pkgs, ssa.GlobalDebug|ssa.BareInits)
	prog.Build()
	p := &Prog{pkgs: pkgs, prog: prog, byPath: map[string]*packages.Package{}, ssaPkgs: map[string]*ssa.Package{},
		targets: map[string]bool{}, funcs: map[string]*ssa.Function{}, overlay: overlay, fileCache: map[string]*ast.File{}}
	for i, pk := range pkgs {
		p.byPath[pk.PkgPath] = pk
		p.targets[pk.PkgPath] = true
		if spkgs[i] != nil {
			p.ssaPkgs[pk.PkgPath] = spkgs[i]
		}
		p.fset = pk.Fset
	}
	for fn := range ssautil.AllFunctions(prog) {
		p.funcs[fn.String()] = fn
	}
	// contracts
	p.contracts = newContractSet()
	prelude := filepath.Join(verifDir, "spec", "prelude.acv")
	if _, err := os.Stat(prelude); err == nil {
		p.contracts.loadFile(prelude, "")
	}
	cfs := contractFiles()
	var ips []string
	for ip := range cfs {
		ips = append(ips, ip)
	}
	sort.Strings(ips)
	for _, ip := range ips {
		if ov, ok := overlay[cfs[ip]]; ok {
			p.contracts.parseContractText(cfs[ip], ip, string(ov))
		} else {
			p.contracts.loadFile(cfs[ip], ip)
		}
	}
	return p, nil
}

func (p *Prog) isTargetPkg(path string) bool { return p.targets[path] }

// resultType finds the i-th result type of a contracted function or interface method by key.
func (p *Prog) resultType(key string, i int) types.Type {
	if fn := p.funcs[key]; fn != nil {
		if i < fn.Signature.Results().Len() {
			return fn.Signature.Results().At(i).Type()
		}
		return nil
	}
	// interface method: (pkg.Iface).Method
	k := strings.LastIndex(key, ").")
	if !strings.HasPrefix(key, "(") || k < 0 {
		return nil
	}
	tn := strings.TrimPrefix(key[1:k], "*")
	mn := key[k+2:]
	d := strings.LastIndex(tn, ".")
	if d < 0 {
		return nil
	}
	pk := p.pkgByPath(tn[:d])
	if pk == nil {
		return nil
	}
	obj := pk.Scope().Lookup(tn[d+1:])
	if obj == nil {
		return nil
	}
	ms := types.NewMethodSet(obj.Type())
	if _, isI := obj.Type().Underlying().(*types.Interface); !isI {
		ms = types.NewMethodSet(types.NewPointer(obj.Type()))
	}
	for j := 0; j < ms.Len(); j++ {
		if ms.At(j).Obj().Name() == mn {
			sig := ms.At(j).Type().(*types.Signature)
			if i < sig.Results().Len() {
				return sig.Results().At(i).Type()
			}
		}
	}
	return nil
}

func (p *Prog) pkgByPath(path string) *types.Package {
	if pk, ok := p.byPath[path]; ok {
		return pk.Types
	}
	for _, pk := range p.pkgs {
		if imp, ok := pk.Imports[path]; ok && imp.Types != nil {
			return imp.Types
		}
	}
	for _, sp := range p.prog.AllPackages() {
		if sp.Pkg.Path() == path {
			return sp.Pkg
		}
	}
	return nil
}

// importedPkg resolves a package name used in a spec expression relative to pkg.
func (p *Prog) importedPkg(pkg *types.Package, name string) *types.Package {
	if pkg != nil {
		// import aliases of the package's own files
		if pk, ok := p.byPath[pkg.Path()]; ok {
			for _, f := range pk.Syntax {
				for _, is := range f.Imports {
					if is.Name != nil && is.Name.Name == name {
						path := strings.Trim(is.Path.Value, "\"")
						if tp := p.pkgByPath(path); tp != nil {
							return tp
						}
					}
				}
			}
		}
		for _, imp := range pkg.Imports() {
			if imp.Name() == name {
				return imp
			}
		}
	}
	// fall back: any loaded package with that name
	var found *types.Package
	for _, sp := range p.prog.AllPackages() {
		if sp.Pkg.Name() == name {
			if strings.HasPrefix(sp.Pkg.Path(), modulePath) {
				return sp.Pkg
			}
			if found == nil {
				found = sp.Pkg
			}
		}
	}
	return found
}

func (p *Prog) globalByObj(o *types.Var) *ssa.Global {
	if o.Pkg() == nil {
		return nil
	}
	sp := p.prog.Package(o.Pkg())
	if sp == nil {
		return nil
	}
	if g, ok := sp.Members[o.Name()].(*ssa.Global); ok {
		return g
	}
	return nil
}

func shortFuncName(fn *ssa.Function) string {
	s := fn.String()
	s = strings.ReplaceAll(s, modulePath+"/", "")
	s = strings.ReplaceAll(s, modulePath+".", "acra.")
	return s
}

func (p *Prog) posString(pos token.Pos) string {
	if pos == token.NoPos {
		return ""
	}
	ps := p.fset.Position(pos)
	rel := strings.TrimPrefix(ps.Filename, repoDir+"/")
	return fmt.Sprintf("%s:%d", rel, ps.Line)
}

func (p *Prog) fileOf(pos token.Pos) *ast.File {
	if pos == token.NoPos {
		return nil
	}
	for _, pk := range p.pkgs {
		for _, f := range pk.Syntax {
			if f.Pos() <= pos && pos <= f.End() {
				return f
			}
		}
	}
	return nil
}

// exprTextAt returns the source text of the expression an instruction stems from.
func (p *Prog) exprTextAt(instr ssa.Instruction, kind string) string {
	pos := instr.Pos()
	f := p.fileOf(pos)
	if f == nil {
		return ""
	}
	path, _ := astutil.PathEnclosingInterval(f, pos, pos)
	want := func(n ast.Node) bool {
		switch kind {
		case "index":
			_, ok := n.(*ast.IndexExpr)
			return ok
		case "slice":
			_, ok := n.(*ast.SliceExpr)
			return ok
		case "callee-requires", "make-neg", "explicit-panic", "alloc-bound":
			_, ok := n.(*ast.CallExpr)
			return ok
		case "div-zero":
			_, ok := n.(*ast.BinaryExpr)
			return ok
		case "type-assert":
			_, ok := n.(*ast.TypeAssertExpr)
			return ok
		case "nil-deref":
			switch n.(type) {
			case *ast.SelectorExpr, *ast.StarExpr, *ast.IndexExpr, *ast.CallExpr:
				return true
			}
			return false
		case "nil-map-store":
			_, ok := n.(*ast.IndexExpr)
			return ok
		}
		_, ok := n.(ast.Expr)
		return ok
	}
	for _, n := range path {
		if want(n) {
			if e, ok := n.(ast.Expr); ok {
				s := types.ExprString(e)
				if len(s) > 90 {
					s = s[:90] + "…"
				}
				return s
			}
		}
	}
	return ""
}

func (p *Prog) debugObj(dr *ssa.DebugRef) string {
	if id, ok := dr.Expr.(*ast.Ident); ok {
		return id.Name
	}
	return ""
}

// ---------- facts about package-level variables ----------

// declOf finds the initializer expression of a package-level variable by parsing its file.
func (p *Prog) declOf(g *ssa.Global) (ast.Expr, *types.Package) {
	pos := g.Pos()
	if pos == token.NoPos {
		return nil, nil
	}
	fn := p.prog.Fset.Position(pos).Filename
	if fn == "" {
		return nil, nil
	}
	var file *ast.File
	if f := p.fileOf(pos); f != nil && p.fset.Position(f.Pos()).Filename == fn {
		file = f
	} else if c, ok := p.fileCache[fn]; ok {
		file = c
	} else {
		var src interface{}
		if ov, ok := p.overlay[fn]; ok {
			src = ov
		}
		pf, err := parser.ParseFile(token.NewFileSet(), fn, src, 0)
		if err != nil {
			return nil, nil
		}
		p.fileCache[fn] = pf
		file = pf
	}
	for _, d := range file.Decls {
		gd, ok := d.(*ast.GenDecl)
		if !ok || gd.Tok != token.VAR {
			continue
		}
		for _, sp := range gd.Specs {
			vs := sp.(*ast.ValueSpec)
			for i, n := range vs.Names {
				if n.Name == g.Name() && i < len(vs.Values) && len(vs.Values) == len(vs.Names) {
					return vs.Values[i], g.Pkg.Pkg
				}
			}
		}
	}
	return nil, nil
}

// constEval evaluates simple constant expressions against a package scope.
func (p *Prog) constEval(x ast.Expr, pkg *types.Package) (constant.Value, bool) {
	switch n := x.(type) {
	case *ast.BasicLit:
		v := constant.MakeFromLiteral(n.Value, n.Kind, 0)
		return v, v.Kind() != constant.Unknown
	case *ast.ParenExpr:
		return p.constEval(n.X, pkg)
	case *ast.Ident:
		if c, ok := pkg.Scope().Lookup(n.Name).(*types.Const); ok {
			return c.Val(), true
		}
		if c, ok := types.Universe.Lookup(n.Name).(*types.Const); ok {
			return c.Val(), true
		}
	case *ast.SelectorExpr:
		if id, ok := n.X.(*ast.Ident); ok {
			if ip := p.importedPkg(pkg, id.Name); ip != nil {
				if c, ok := ip.Scope().Lookup(n.Sel.Name).(*types.Const); ok {
					return c.Val(), true
				}
			}
		}
	case *ast.BinaryExpr:
		a, ok1 := p.constEval(n.X, pkg)
		b, ok2 := p.constEval(n.Y, pkg)
		if ok1 && ok2 {
			switch n.Op {
			case token.SHL, token.SHR:
				if s, ok := constant.Uint64Val(b); ok {
					return constant.Shift(a, n.Op, uint(s)), true
				}
			case token.ADD, token.SUB, token.MUL, token.OR, token.AND, token.XOR:
				return constant.BinaryOp(a, n.Op, b), true
			}
		}
	case *ast.CallExpr:
		if len(n.Args) == 1 {
			return p.constEval(n.Args[0], pkg)
		}
	}
	return nil, false
}

// globalFacts emits what is known about the initial value of a package-level variable:
// byte-slice literals (length and content), map literals with constant keys (domain),
// error sentinels (non-nil, pairwise distinct). Assumes the variable is not reassigned after init
// (checked structurally for the loaded packages; listed as an assumption otherwise).
func (e *Enc) globalFacts(g *ssa.Global, init Term, t types.Type) {
	p := e.p
	if s, ok := t.Underlying().(*types.Slice); ok {
		e.pre(fmt.Sprintf("(assert %s)", e.sliceWF(init).S))
		e.pre(fmt.Sprintf("(assert (bvule %s wm0))", sReg(init).S))
		_ = s
	}
	x, pkg := p.declOf(g)
	if x == nil {
		if _, ok := t.Underlying().(*types.Pointer); ok {
			e.pre(fmt.Sprintf("(assert (bvule %s wm0))", init.S))
		}
		return
	}
	e.trust("package-level variable keeps its initial value: " + g.Pkg.Pkg.Path() + "." + g.Name())
	switch u := t.Underlying().(type) {
	case *types.Slice:
		cl, ok := x.(*ast.CompositeLit)
		if !ok || e.sortOf(u.Elem()) != SBV8 {
			if ce, ok := x.(*ast.CallExpr); ok && len(ce.Args) == 1 {
				// []byte("literal")
				if v, ok := p.constEval(ce.Args[0], pkg); ok && v.Kind() == constant.String {
					s := constant.StringVal(v)
					e.bytesGlobalFacts(init, []byte(s))
				}
			}
			return
		}
		var bs []byte
		for _, el := range cl.Elts {
			v, ok := p.constEval(el, pkg)
			if !ok {
				return
			}
			iv, ok := constant.Int64Val(constant.ToInt(v))
			if !ok {
				return
			}
			bs = append(bs, byte(iv))
		}
		e.bytesGlobalFacts(init, bs)
	case *types.Interface:
		switch x.(type) {
		case *ast.CallExpr, *ast.UnaryExpr, *ast.CompositeLit:
			e.errGlobs = append(e.errGlobs, init.S)
		}
	case *types.Map:
		cl, ok := x.(*ast.CompositeLit)
		if !ok {
			return
		}
		ks := e.sortOf(u.Key())
		w := ks.bvWidth()
		if w == 0 {
			return
		}
		var keys []Term
		for _, el := range cl.Elts {
			kv, ok := el.(*ast.KeyValueExpr)
			if !ok {
				return
			}
			v, ok := p.constEval(kv.Key, pkg)
			if !ok {
				return
			}
			iv, ok := constant.Int64Val(constant.ToInt(v))
			if !ok {
				return
			}
			keys = append(keys, bvConst(uint64(iv), w))
		}
		pn, ps, _, _ := e.mapHeaps(u)
		ph := pn + "@0"
		e.predeclare(ph, fmt.Sprintf("(declare-const %s %s)", ph, ps))
		e.pre(fmt.Sprintf("(assert (not (= %s %s)))", init.S, i64(0).S))
		q := e.qvar()
		var alts []Term
		for _, k := range keys {
			alts = append(alts, eq(sym(q, ks), k))
		}
		e.pre(fmt.Sprintf("(assert (forall ((%s %s)) (= (select (select %s %s) %s) %s)))", q, ks, ph, init.S, q, or(alts...).S))
		// values stored for present keys are non-nil interfaces
		if e.sortOf(u.Elem()) == SIface && len(cl.Elts) > 0 {
			_, _, vn, vs := e.mapHeaps(u)
			vh := vn + "@0"
			e.predeclare(vh, fmt.Sprintf("(declare-const %s %s)", vh, vs))
			for _, k := range keys {
				e.pre(fmt.Sprintf("(assert (not (= (select (select %s %s) %s) inil)))", vh, init.S, k.S))
			}
		}
		e.note("map literal " + g.Name() + ": domain fixed to its literal keys")
	}
}

func (e *Enc) bytesGlobalFacts(init Term, bs []byte) {
	if e.globLen == nil {
		e.globLen = map[string]int{}
	}
	e.globLen[init.S] = len(bs)
	hn, hs := e.elemHeapName(SBV8)
	h0 := hn + "@0"
	e.predeclare(h0, fmt.Sprintf("(declare-const %s %s)", h0, hs))
	e.pre(fmt.Sprintf("(assert (= %s %s))", sLen(init).S, i64(int64(len(bs))).S))
	e.pre(fmt.Sprintf("(assert (not (= %s %s)))", sReg(init).S, i64(0).S))
	if len(bs) <= 64 {
		for i, b := range bs {
			e.pre(fmt.Sprintf("(assert (= (select (select %s %s) (bvadd %s %s)) %s))", h0, sReg(init).S, sOff(init).S, i64(int64(i)).S, bvConst(uint64(b), 8).S))
		}
	}
}
