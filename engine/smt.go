package main

// SMT-LIB term layer: terms are strings with a sort; 64-bit bit-vector semantics for Go ints.

import (
	"fmt"
	"strings"
)

type Sort string

const (
	SBool  Sort = "Bool"
	SBV8   Sort = "(_ BitVec 8)"
	SBV16  Sort = "(_ BitVec 16)"
	SBV32  Sort = "(_ BitVec 32)"
	SBV64  Sort = "(_ BitVec 64)"
	SSlice Sort = "Slice"
	SStr   Sort = "Str"
	SIface Sort = "Iface"
	SFloat Sort = "Float"
	SRef   Sort = "(_ BitVec 64)" // object identities / regions share the BV64 sort
)

func bvSort(w int) Sort { return Sort(fmt.Sprintf("(_ BitVec %d)", w)) }

func (s Sort) bvWidth() int {
	var w int
	if n, _ := fmt.Sscanf(string(s), "(_ BitVec %d)", &w); n == 1 {
		return w
	}
	return 0
}

func arraySort(idx, el Sort) Sort { return Sort("(Array " + string(idx) + " " + string(el) + ")") }

// Term is an SMT term. If isC, the term is a bit-vector or Bool literal with value c.
type Term struct {
	S    string
	Sort Sort
	isC  bool
	c    uint64
}

func (t Term) String() string { return t.S }

func mask(w int) uint64 {
	if w >= 64 {
		return ^uint64(0)
	}
	return (uint64(1) << uint(w)) - 1
}

func bvConst(v uint64, w int) Term {
	v &= mask(w)
	var s string
	if w%4 == 0 {
		s = fmt.Sprintf("#x%0*x", w/4, v)
	} else {
		s = fmt.Sprintf("(_ bv%d %d)", v, w)
	}
	return Term{S: s, Sort: bvSort(w), isC: true, c: v}
}

func i64(v int64) Term { return bvConst(uint64(v), 64) }

var (
	tTrue  = Term{S: "true", Sort: SBool, isC: true, c: 1}
	tFalse = Term{S: "false", Sort: SBool, isC: true, c: 0}
)

func boolConst(b bool) Term {
	if b {
		return tTrue
	}
	return tFalse
}

func app(sort Sort, op string, args ...Term) Term {
	var sb strings.Builder
	sb.WriteByte('(')
	sb.WriteString(op)
	for _, a := range args {
		sb.WriteByte(' ')
		sb.WriteString(a.S)
	}
	sb.WriteByte(')')
	return Term{S: sb.String(), Sort: sort}
}

func sym(name string, sort Sort) Term { return Term{S: name, Sort: sort} }

func not(a Term) Term {
	if a.isC {
		return boolConst(a.c == 0)
	}
	if strings.HasPrefix(a.S, "(not ") {
		return Term{S: a.S[5 : len(a.S)-1], Sort: SBool}
	}
	return app(SBool, "not", a)
}

func and(ts ...Term) Term {
	var out []Term
	for _, t := range ts {
		if t.isC {
			if t.c == 0 {
				return tFalse
			}
			continue
		}
		out = append(out, t)
	}
	if len(out) == 0 {
		return tTrue
	}
	if len(out) == 1 {
		return out[0]
	}
	return app(SBool, "and", out...)
}

func or(ts ...Term) Term {
	var out []Term
	for _, t := range ts {
		if t.isC {
			if t.c != 0 {
				return tTrue
			}
			continue
		}
		out = append(out, t)
	}
	if len(out) == 0 {
		return tFalse
	}
	if len(out) == 1 {
		return out[0]
	}
	return app(SBool, "or", out...)
}

func implies(a, b Term) Term {
	if a.isC {
		if a.c == 0 {
			return tTrue
		}
		return b
	}
	if b.isC && b.c != 0 {
		return tTrue
	}
	return app(SBool, "=>", a, b)
}

func eq(a, b Term) Term {
	if a.Sort != b.Sort {
		panic(fmt.Sprintf("eq sort mismatch: %s:%s vs %s:%s", a.S, a.Sort, b.S, b.Sort))
	}
	if a.isC && b.isC {
		return boolConst(a.c == b.c)
	}
	if a.S == b.S {
		return tTrue
	}
	return app(SBool, "=", a, b)
}

func ite(c, a, b Term) Term {
	if a.Sort != b.Sort {
		panic(fmt.Sprintf("ite sort mismatch: %s:%s vs %s:%s", a.S, a.Sort, b.S, b.Sort))
	}
	if c.isC {
		if c.c != 0 {
			return a
		}
		return b
	}
	if a.S == b.S {
		return a
	}
	if a.Sort == SBool && a.isC && b.isC {
		if a.c != 0 {
			return c
		}
		return not(c)
	}
	return app(a.Sort, "ite", c, a, b)
}

func sext64(v uint64, w int) int64 {
	if w >= 64 {
		return int64(v)
	}
	if v&(uint64(1)<<uint(w-1)) != 0 {
		return int64(v | ^mask(w))
	}
	return int64(v)
}

func bvBin(op string, a, b Term) Term {
	if a.Sort != b.Sort {
		panic(fmt.Sprintf("bv %s sort mismatch: %s:%s vs %s:%s", op, a.S, a.Sort, b.S, b.Sort))
	}
	w := a.Sort.bvWidth()
	if a.isC && b.isC {
		switch op {
		case "bvadd":
			return bvConst(a.c+b.c, w)
		case "bvsub":
			return bvConst(a.c-b.c, w)
		case "bvmul":
			return bvConst(a.c*b.c, w)
		case "bvand":
			return bvConst(a.c&b.c, w)
		case "bvor":
			return bvConst(a.c|b.c, w)
		case "bvxor":
			return bvConst(a.c^b.c, w)
		}
	}
	switch op {
	case "bvadd":
		if a.isC && a.c == 0 {
			return b
		}
		if b.isC && b.c == 0 {
			return a
		}
	case "bvsub":
		if b.isC && b.c == 0 {
			return a
		}
	}
	return app(a.Sort, op, a, b)
}

func bvAdd(a, b Term) Term { return bvBin("bvadd", a, b) }
func bvSub(a, b Term) Term { return bvBin("bvsub", a, b) }

func bvCmp(op string, a, b Term) Term {
	if a.Sort != b.Sort {
		panic(fmt.Sprintf("bvcmp %s sort mismatch: %s:%s vs %s:%s", op, a.S, a.Sort, b.S, b.Sort))
	}
	w := a.Sort.bvWidth()
	if a.isC && b.isC {
		sa, sb := sext64(a.c, w), sext64(b.c, w)
		switch op {
		case "bvult":
			return boolConst(a.c < b.c)
		case "bvule":
			return boolConst(a.c <= b.c)
		case "bvugt":
			return boolConst(a.c > b.c)
		case "bvuge":
			return boolConst(a.c >= b.c)
		case "bvslt":
			return boolConst(sa < sb)
		case "bvsle":
			return boolConst(sa <= sb)
		case "bvsgt":
			return boolConst(sa > sb)
		case "bvsge":
			return boolConst(sa >= sb)
		}
	}
	return app(SBool, op, a, b)
}

func sle(a, b Term) Term { return bvCmp("bvsle", a, b) }
func slt(a, b Term) Term { return bvCmp("bvslt", a, b) }
func ule(a, b Term) Term { return bvCmp("bvule", a, b) }
func ult(a, b Term) Term { return bvCmp("bvult", a, b) }

// conv converts a bit-vector between widths (signed = source type signedness).
func conv(a Term, to int, signed bool) Term {
	from := a.Sort.bvWidth()
	if from == to {
		return a
	}
	if a.isC {
		if to < from {
			return bvConst(a.c, to)
		}
		if signed {
			return bvConst(uint64(sext64(a.c, from)), to)
		}
		return bvConst(a.c, to)
	}
	if to < from {
		return Term{S: fmt.Sprintf("((_ extract %d 0) %s)", to-1, a.S), Sort: bvSort(to)}
	}
	if signed {
		return Term{S: fmt.Sprintf("((_ sign_extend %d) %s)", to-from, a.S), Sort: bvSort(to)}
	}
	return Term{S: fmt.Sprintf("((_ zero_extend %d) %s)", to-from, a.S), Sort: bvSort(to)}
}

func sel(arr, idx Term) Term {
	s := string(arr.Sort)
	// (Array I E) -> E
	el := arrayElem(Sort(s))
	return app(el, "select", arr, idx)
}

func store(arr, idx, v Term) Term { return app(arr.Sort, "store", arr, idx, v) }

// arrayElem returns the element sort of "(Array I E)".
func arrayElem(s Sort) Sort {
	str := string(s)
	if !strings.HasPrefix(str, "(Array ") {
		panic("not an array sort: " + str)
	}
	body := str[7 : len(str)-1]
	// split first sort
	depth := 0
	for i := 0; i < len(body); i++ {
		switch body[i] {
		case '(':
			depth++
		case ')':
			depth--
		case ' ':
			if depth == 0 {
				return Sort(body[i+1:])
			}
		}
	}
	panic("bad array sort: " + str)
}

func arrayIdx(s Sort) Sort {
	str := string(s)
	body := str[7 : len(str)-1]
	depth := 0
	for i := 0; i < len(body); i++ {
		switch body[i] {
		case '(':
			depth++
		case ')':
			depth--
		case ' ':
			if depth == 0 {
				return Sort(body[:i])
			}
		}
	}
	panic("bad array sort: " + str)
}

// Slice datatype accessors.
func sReg(s Term) Term { return fieldOf(s, "s.reg", SRef) }
func sOff(s Term) Term { return fieldOf(s, "s.off", SBV64) }
func sLen(s Term) Term { return fieldOf(s, "s.len", SBV64) }
func sCap(s Term) Term { return fieldOf(s, "s.cap", SBV64) }

func mkSlice(reg, off, ln, cp Term) Term { return app(SSlice, "mk-slice", reg, off, ln, cp) }

// fieldOf applies a datatype selector, folding over an explicit constructor application.
func fieldOf(s Term, selName string, sort Sort) Term {
	if strings.HasPrefix(s.S, "(mk-slice ") && strings.HasPrefix(selName, "s.") {
		parts := splitTop(s.S[1 : len(s.S)-1])
		idx := map[string]int{"s.reg": 1, "s.off": 2, "s.len": 3, "s.cap": 4}[selName]
		if idx > 0 && len(parts) == 5 {
			return reparse(parts[idx], sort)
		}
	}
	return app(sort, selName, s)
}

// reparse re-creates a Term from text, recovering literal constants.
func reparse(s string, sort Sort) Term {
	t := Term{S: s, Sort: sort}
	if strings.HasPrefix(s, "#x") {
		var v uint64
		fmt.Sscanf(s[2:], "%x", &v)
		t.isC, t.c = true, v
	} else if s == "true" {
		return tTrue
	} else if s == "false" {
		return tFalse
	}
	return t
}

// splitTop splits an s-expression body on top-level spaces.
func splitTop(s string) []string {
	var out []string
	depth, start := 0, 0
	for i := 0; i < len(s); i++ {
		switch s[i] {
		case '(':
			depth++
		case ')':
			depth--
		case ' ':
			if depth == 0 {
				if i > start {
					out = append(out, s[start:i])
				}
				start = i + 1
			}
		}
	}
	if start < len(s) {
		out = append(out, s[start:])
	}
	return out
}

func sanitize(s string) string {
	var sb strings.Builder
	for _, r := range s {
		switch {
		case r >= 'a' && r <= 'z', r >= 'A' && r <= 'Z', r >= '0' && r <= '9', r == '_', r == '.':
			sb.WriteRune(r)
		default:
			sb.WriteByte('_')
		}
	}
	return sb.String()
}

const smtPrelude = `(set-option :produce-models true)
(set-logic ALL)
(declare-datatypes ((Slice 0)) (((mk-slice (s.reg (_ BitVec 64)) (s.off (_ BitVec 64)) (s.len (_ BitVec 64)) (s.cap (_ BitVec 64))))))
(declare-sort Str 0)
(declare-sort Iface 0)
(declare-sort Float 0)
(declare-fun strlen (Str) (_ BitVec 64))
(declare-fun strat (Str (_ BitVec 64)) (_ BitVec 8))
(declare-fun strcat (Str Str) Str)
(declare-fun itag (Iface) (_ BitVec 64))
(declare-const inil Iface)
(assert (= (itag inil) #x0000000000000000))
`
