package main

// Structural obligation "walks-children": every AST node type hands every child to the walker.
//
//   structural NAME props Cxx : walks-children IFACE METHOD WALKFUNC [except T.F,T.F,...]
//
// For every struct type T of the package that declares METHOD (walkSubtree), every field of T whose type is a node
// (implements IFACE, or is a slice of such) must be handed to WALKFUNC (Walk) on every path of METHOD that ends in a
// successful return: a forward must-analysis over the CFG ("field F has been loaded and that value flows into a call
// of WALKFUNC") evaluated at every return that is not the receiver-is-nil early return and not the propagation of an
// error produced in another block. Fields listed after `except` are deliberately not walked (each one is visible in
// the contract). The check is syntactic/data-flow only: what WALKFUNC does with its arguments is not examined.

import (
	"fmt"
	"go/token"
	"go/types"
	"sort"
	"strings"

	"golang.org/x/tools/go/ssa"
)

func (p *Prog) walksChildren(st Structural) (bool, string) {
	ok, detail, _ := p.walksChildrenItems(st)
	return ok, detail
}

// walksChildrenItems: as walksChildren, plus the failing (Type.Field) items one by one.
func (p *Prog) walksChildrenItems(st Structural) (bool, string, map[string]string) {
	items := map[string]string{}
	if len(st.Args) < 3 {
		return false, "walks-children IFACE METHOD WALKFUNC [except T.F,...]", nil
	}
	pk := p.pkgByPath(st.PkgPath)
	if pk == nil {
		return false, "package not loaded: " + st.PkgPath, nil
	}
	obj := pk.Scope().Lookup(st.Args[0])
	if obj == nil {
		return false, "type not found: " + st.Args[0], nil
	}
	iface, ok := obj.Type().Underlying().(*types.Interface)
	if !ok {
		return false, st.Args[0] + " is not an interface", nil
	}
	method, walk := st.Args[1], st.Args[2]
	except := map[string]bool{}
	if len(st.Args) >= 5 && st.Args[3] == "except" {
		for _, e := range strings.Split(st.Args[4], ",") {
			except[e] = true
		}
	}
	usedExcept := map[string]bool{}
	isNode := func(t types.Type) bool {
		if types.Implements(t, iface) {
			return true
		}
		if sl, ok := t.Underlying().(*types.Slice); ok {
			return types.Implements(sl.Elem(), iface)
		}
		return false
	}
	var bad []string
	checked := 0
	for _, name := range pk.Scope().Names() {
		tn, ok := pk.Scope().Lookup(name).(*types.TypeName)
		if !ok {
			continue
		}
		named, ok := tn.Type().(*types.Named)
		if !ok {
			continue
		}
		sty, ok := named.Underlying().(*types.Struct)
		if !ok {
			continue
		}
		var fn *ssa.Function
		for _, recvT := range []types.Type{types.NewPointer(named), named} {
			ms := p.prog.MethodSets.MethodSet(recvT)
			if sel := ms.Lookup(pk, method); sel != nil {
				if f := p.prog.MethodValue(sel); f != nil && f.Blocks != nil && f.Synthetic == "" {
					fn = f
					break
				}
			}
		}
		if fn == nil {
			continue
		}
		var need []int
		for i := 0; i < sty.NumFields(); i++ {
			if isNode(sty.Field(i).Type()) {
				key := name + "." + sty.Field(i).Name()
				if except[key] {
					usedExcept[key] = true
					continue
				}
				need = append(need, i)
			}
		}
		if len(need) == 0 {
			continue
		}
		checked++
		recv := fn.Params[0]
		// a value receiver that is spilled to a local (node := *recv) is the receiver too
		isRecv := map[ssa.Value]bool{recv: true}
		for _, b := range fn.Blocks {
			for _, in := range b.Instrs {
				if stx, ok := in.(*ssa.Store); ok && stx.Val == recv {
					isRecv[stx.Addr] = true
				}
			}
		}
		// handled[block][field]
		handled := map[int]map[int]bool{}
		flowsToWalk := func(v ssa.Value) bool {
			seen := map[ssa.Value]bool{}
			var visit func(v ssa.Value, depth int) bool
			visit = func(v ssa.Value, depth int) bool {
				if v == nil || seen[v] || depth > 12 {
					return false
				}
				seen[v] = true
				refs := v.Referrers()
				if refs == nil {
					return false
				}
				for _, r := range *refs {
					switch x := r.(type) {
					case *ssa.Call:
						if cn := calleeName(x.Common()); matchPattern(walk, cn) || strings.HasSuffix(normName(cn), "."+method) {
							return true
						}
					case *ssa.Store:
						if x.Val == v {
							root := x.Addr
							for {
								if ia, ok := root.(*ssa.IndexAddr); ok {
									root = ia.X
									continue
								}
								break
							}
							if visit(root, depth+1) {
								return true
							}
						}
					case ssa.Value:
						if visit(x, depth+1) {
							return true
						}
					}
				}
				return false
			}
			return visit(v, 0)
		}
		for _, b := range fn.Blocks {
			for _, in := range b.Instrs {
				var fi = -1
				var val ssa.Value
				switch x := in.(type) {
				case *ssa.FieldAddr:
					if isRecv[x.X] {
						fi, val = x.Field, x
					}
				case *ssa.Field:
					if isRecv[x.X] {
						fi, val = x.Field, x
					}
				}
				if fi < 0 || !flowsToWalk(val) {
					continue
				}
				if handled[b.Index] == nil {
					handled[b.Index] = map[int]bool{}
				}
				handled[b.Index][fi] = true
			}
		}
		// must-analysis
		full := map[int]bool{}
		for _, i := range need {
			full[i] = true
		}
		out := make([]map[int]bool, len(fn.Blocks))
		for i := range out {
			out[i] = copySet(full)
		}
		for changed := true; changed; {
			changed = false
			for _, b := range fn.Blocks {
				var in map[int]bool
				if b.Index == 0 {
					in = map[int]bool{}
				} else {
					in = copySet(full)
					for _, pr := range b.Preds {
						for k := range in {
							if !out[pr.Index][k] {
								delete(in, k)
							}
						}
					}
				}
				for k := range handled[b.Index] {
					if full[k] {
						in[k] = true
					}
				}
				if len(in) != len(out[b.Index]) {
					out[b.Index] = in
					changed = true
				}
			}
		}
		nilEarly := func(b *ssa.BasicBlock) bool {
			// the true branch of `if recv == nil` in the entry block
			for _, pr := range b.Preds {
				if iff, ok := pr.Instrs[len(pr.Instrs)-1].(*ssa.If); ok {
					if bo, ok := iff.Cond.(*ssa.BinOp); ok && bo.Op == token.EQL && (bo.X == recv || bo.Y == recv) && pr.Succs[0] == b {
						return true
					}
				}
			}
			return false
		}
		for _, b := range fn.Blocks {
			ret, ok := b.Instrs[len(b.Instrs)-1].(*ssa.Return)
			if !ok || len(ret.Results) == 0 || nilEarly(b) {
				continue
			}
			res := ret.Results[len(ret.Results)-1]
			if c, isConst := res.(*ssa.Const); !(isConst && c.IsNil()) {
				// `return Walk(...)` in the same block counts as a successful end; an error produced elsewhere is propagation
				if iv, ok := res.(ssa.Instruction); !ok || iv.Block() != b {
					continue
				}
			}
			for _, i := range need {
				if !out[b.Index][i] {
					msg := fmt.Sprintf("%s.%s: field %s is not handed to %s on the path that returns at %s", name, method, sty.Field(i).Name(), walk, p.posString(ret.Pos()))
					bad = append(bad, msg)
					items[name+"."+sty.Field(i).Name()] = msg
				}
			}
		}
	}
	for e := range except {
		if !usedExcept[e] {
			bad = append(bad, "exception "+e+" names no node-typed field of a type with "+method+" (stale contract)")
			items["stale-exception:"+e] = bad[len(bad)-1]
		}
	}
	if checked == 0 {
		return false, "no type with method " + method + " and node-typed fields found (stale contract)", nil
	}
	if len(bad) > 0 {
		sort.Strings(bad)
		return false, strings.Join(bad, "\n"), items
	}
	return true, "", nil
}

func copySet(m map[int]bool) map[int]bool {
	o := make(map[int]bool, len(m))
	for k, v := range m {
		o[k] = v
	}
	return o
}
