package main

// Lemmas (proved from spec definitions and axioms only) and structural obligations
// (decided by go/types / SSA inspection).

import (
	"fmt"
	"go/ast"
	"go/token"
	"go/types"
	"os"
	"path/filepath"
	"sort"
	"strings"

	"golang.org/x/tools/go/ssa"
)

type structResult struct {
	name   string
	ok     bool
	detail string
}

func (p *Prog) lemmaEnv(e *Enc, pkgPath string) *SpecEnv {
	st := &State{heaps: map[string]Term{}, wm: sym("wm0", SRef)}
	f := &Frame{e: e, st: st}
	f.entry = st
	env := &SpecEnv{e: e, f: f, vars: map[string]SpecVal{}, st: st, old: st}
	env.pkg = p.pkgByPath(pkgPath)
	return env
}

func (p *Prog) declareVars(e *Enc, env *SpecEnv, vars []string) error {
	for _, v := range vars {
		fs := strings.Fields(v)
		if len(fs) != 2 {
			return fmt.Errorf("bad variable declaration %q", v)
		}
		s, t := env.specSort(fs[1])
		if s == Sort("Bytes") {
			return fmt.Errorf("unsupported variable type %q", fs[1])
		}
		if t == nil {
			if tt := env.lookupType(mustParseType(fs[1])); tt != nil {
				t = tt
				s = e.sortOf(tt)
			}
		}
		c := e.havoc("v_"+fs[0], s)
		if s == SSlice {
			e.assume(e.sliceWF(c))
		}
		env.vars[fs[0]] = SpecVal{T: c, Typ: t}
	}
	return nil
}

func mustParseType(s string) ast.Expr {
	// reuse the header parser
	_, _, _, _ = parseHeader("", "func f(x "+s+")")
	return ast.NewIdent(s)
}

// axiomCmds renders every axiom as an SMT assertion in the given encoder.
func (p *Prog) axiomCmds(e *Enc) { p.axiomCmdsFor(e, "*") }

// axiomCmdsFor asserts the axioms declared in the prelude and in the given package (all packages for "*").
func (p *Prog) axiomCmdsFor(e *Enc, pkgPath string) {
	for _, ax := range p.contracts.Axioms {
		if pkgPath != "*" && ax.PkgPath != "" && ax.PkgPath != pkgPath {
			continue
		}
		env := p.lemmaEnv(e, ax.PkgPath)
		// universally quantified variables become SMT bound variables
		var binders []string
		ok := true
		for _, v := range ax.Vars {
			fs := strings.Fields(v)
			if len(fs) != 2 {
				ok = false
				break
			}
			s, t := env.specSort(fs[1])
			q := e.qvar() + "_" + sanitize(fs[0])
			binders = append(binders, fmt.Sprintf("(%s %s)", q, s))
			env.vars[fs[0]] = SpecVal{T: sym(q, s), Typ: t}
		}
		if !ok {
			e.specError("bad axiom " + ax.Name)
			continue
		}
		t, err := env.evalBool(ax.Cl.Expr)
		if err != nil {
			e.specError(fmt.Sprintf("axiom %s: %v", ax.Name, err))
			continue
		}
		e.trust("axiom: " + ax.Name + " : " + ax.Cl.Text)
		if len(binders) > 0 {
			e.pre(fmt.Sprintf("(assert (forall (%s) %s))", strings.Join(binders, " "), t.S))
		} else {
			e.pre(fmt.Sprintf("(assert %s)", t.S))
		}
	}
}

func (p *Prog) checkLemmas(prop string, opts runOpts) []*OblResult {
	var out []*OblResult
	for _, lm := range p.contracts.Lemmas {
		if !contains(lm.Props, prop) {
			continue
		}
		e := newEnc(p, nil, &Contract{Props: lm.Props})
		e.ghostSorts = map[string]Sort{}
		e.ghostTypes = map[string]types.Type{}
		name := "lemma:" + lm.Name
		env := p.lemmaEnv(e, lm.PkgPath)
		p.axiomCmds(e)
		o := &Obligation{Name: name, Kind: "lemma", Props: lm.Props, Text: lm.Cl.Text}
		if err := p.declareVars(e, env, lm.Vars); err != nil {
			out = append(out, &OblResult{O: o, Res: SolverResult{Verdict: "error", Output: err.Error()}, Enc: e})
			continue
		}
		t, err := env.evalBool(lm.Cl.Expr)
		if err != nil || len(e.specErrors) > 0 {
			msg := fmt.Sprintf("%v %v", err, e.specErrors)
			out = append(out, &OblResult{O: o, Res: SolverResult{Verdict: "error", Output: msg}, Enc: e})
			continue
		}
		o.Goal = t
		o.CmdIdx = len(e.cmds)
		wd := filepath.Join(opts.workdir, "lemmas")
		os.MkdirAll(wd, 0o755)
		q := e.buildQuery(e.finishPreamble(), o, false)
		r := solve(wd, name, q, opts.timeoutS, opts.needTwo)
		out = append(out, &OblResult{O: o, Res: r, Enc: e, QueryLen: len(q)})
	}
	return out
}

func (p *Prog) checkStructurals(prop string) []structResult {
	var out []structResult
	for _, st := range p.contracts.Structurals {
		if _, loaded := p.byPath[st.PkgPath]; st.Kind == "field-readonly" && !contains(st.Props, prop) && !loaded {
			continue
		}
		if !contains(st.Props, prop) && st.Kind != "field-readonly" {
			// field-readonly is also an assumption of the encoder (calls do not havoc the field), so it is
			// checked in every run that loads the package, whatever the property
			continue
		}
		name := "structural:" + st.Name
		if st.Kind == "walks-children" {
			// one obligation per (Type.Field), so that a recorded finding does not hide a new one
			ok, detail, items := p.walksChildrenItems(st)
			if !ok && len(items) > 0 {
				var keys []string
				for k := range items {
					keys = append(keys, k)
				}
				sort.Strings(keys)
				for _, k := range keys {
					out = append(out, structResult{name: name + ":" + k, ok: false, detail: items[k]})
				}
				continue
			}
			out = append(out, structResult{name: name, ok: ok, detail: detail})
			continue
		}
		ok, detail := p.structural(st)
		out = append(out, structResult{name: name, ok: ok, detail: detail})
	}
	return out
}

func (p *Prog) lookupNamed(pkgPath, name string) (types.Object, *types.Package) {
	if k := strings.LastIndex(name, "."); k >= 0 {
		// qualified: pkgname.Name or full/path.Name
		q, n := name[:k], name[k+1:]
		if pk := p.pkgByPath(q); pk != nil {
			return pk.Scope().Lookup(n), pk
		}
		if pk := p.importedPkg(p.pkgByPath(pkgPath), q); pk != nil {
			return pk.Scope().Lookup(n), pk
		}
		return nil, nil
	}
	pk := p.pkgByPath(pkgPath)
	if pk == nil {
		return nil, nil
	}
	return pk.Scope().Lookup(name), pk
}

func (p *Prog) structural(st Structural) (bool, string) {
	switch st.Kind {
	case "methods-declared":
		// methods-declared T Iface : every method of Iface is declared on T itself (not promoted)
		if len(st.Args) != 2 {
			return false, "methods-declared needs T and Iface"
		}
		to, _ := p.lookupNamed(st.PkgPath, st.Args[0])
		io, _ := p.lookupNamed(st.PkgPath, st.Args[1])
		if to == nil || io == nil {
			return false, fmt.Sprintf("type %s or interface %s not found", st.Args[0], st.Args[1])
		}
		named, ok := to.Type().(*types.Named)
		if !ok {
			return false, st.Args[0] + " is not a named type"
		}
		iface, ok := io.Type().Underlying().(*types.Interface)
		if !ok {
			return false, st.Args[1] + " is not an interface"
		}
		declared := map[string]bool{}
		for i := 0; i < named.NumMethods(); i++ {
			declared[named.Method(i).Name()] = true
		}
		var missing []string
		for i := 0; i < iface.NumMethods(); i++ {
			m := iface.Method(i)
			if !m.Exported() {
				continue
			}
			if !declared[m.Name()] {
				missing = append(missing, m.Name())
			}
		}
		if len(missing) > 0 {
			return false, fmt.Sprintf("methods of %s not declared on %s itself (promoted from an embedded type or absent): %s", st.Args[1], st.Args[0], strings.Join(missing, ", "))
		}
		return true, ""
	case "enum-classified":
		// enum-classified Type C1 C2 ... : every constant of Type in its package is listed
		if len(st.Args) < 1 {
			return false, "enum-classified needs a type"
		}
		to, pk := p.lookupNamed(st.PkgPath, st.Args[0])
		if to == nil {
			return false, "type " + st.Args[0] + " not found"
		}
		listed := map[string]bool{}
		for _, a := range st.Args[1:] {
			listed[a] = true
		}
		var missing, extra []string
		seen := map[string]bool{}
		for _, n := range pk.Scope().Names() {
			c, ok := pk.Scope().Lookup(n).(*types.Const)
			if !ok || !types.Identical(c.Type(), to.Type()) {
				continue
			}
			seen[n] = true
			if !listed[n] {
				missing = append(missing, n)
			}
		}
		for a := range listed {
			if !seen[a] {
				extra = append(extra, a)
			}
		}
		sort.Strings(missing)
		sort.Strings(extra)
		if len(missing) > 0 || len(extra) > 0 {
			return false, fmt.Sprintf("constants of %s not classified: %v; classified but absent: %v", st.Args[0], missing, extra)
		}
		return true, ""
	case "global-readonly":
		// global-readonly Name : no store to the variable outside package init in the loaded packages
		if len(st.Args) != 1 {
			return false, "global-readonly needs a variable"
		}
		o, _ := p.lookupNamed(st.PkgPath, st.Args[0])
		v, ok := o.(*types.Var)
		if !ok {
			return false, "variable " + st.Args[0] + " not found"
		}
		g := p.globalByObj(v)
		if g == nil {
			return false, "no SSA global for " + st.Args[0]
		}
		var bad []string
		for _, fn := range p.funcs {
			if fn.Blocks == nil || fn.Name() == "init" || strings.HasPrefix(fn.Name(), "init#") {
				continue
			}
			for _, b := range fn.Blocks {
				for _, in := range b.Instrs {
					switch x := in.(type) {
					case *ssa.Store:
						if x.Addr == ssa.Value(g) {
							bad = append(bad, fn.String())
						}
					case *ssa.MapUpdate:
						if ld, ok := x.Map.(*ssa.UnOp); ok && ld.Op == token.MUL && ld.X == ssa.Value(g) {
							bad = append(bad, fn.String())
						}
					}
				}
			}
		}
		if len(bad) > 0 {
			sort.Strings(bad)
			return false, fmt.Sprintf("%s is written outside init by: %s", st.Args[0], strings.Join(bad, ", "))
		}
		return true, ""
	case "field-readonly":
		return p.fieldReadonly(st)
	case "noflow":
		return p.noflow(st)
	case "walks-children":
		return p.walksChildren(st)
	case "nocall":
		// nocall F G : function F contains no direct call (call, defer, go) of a function whose name matches G
		if len(st.Args) != 2 {
			return false, "nocall needs F and G"
		}
		var fn *ssa.Function
		for k, f := range p.funcs {
			if matchPattern(st.Args[0], k) && strings.HasPrefix(pkgPathOf(f), st.PkgPath) {
				fn = f
			}
		}
		if fn == nil || fn.Blocks == nil {
			return false, "function " + st.Args[0] + " not found"
		}
		for _, b := range fn.Blocks {
			for _, in := range b.Instrs {
				var c *ssa.CallCommon
				switch x := in.(type) {
				case *ssa.Call:
					c = x.Common()
				case *ssa.Defer:
					c = x.Common()
				case *ssa.Go:
					c = x.Common()
				}
				if c != nil && matchPattern(st.Args[1], calleeName(c)) {
					return false, fmt.Sprintf("%s calls %s at %s", st.Args[0], calleeName(c), p.posString(in.Pos()))
				}
			}
		}
		return true, ""
	case "defers":
		// defers F G : function F contains a `defer` of (a function whose name matches) G in its entry path
		if len(st.Args) != 2 {
			return false, "defers needs F and G"
		}
		var fn *ssa.Function
		for k, f := range p.funcs {
			if matchPattern(st.Args[0], k) && strings.HasPrefix(pkgPathOf(f), st.PkgPath) {
				fn = f
			}
		}
		if fn == nil || fn.Blocks == nil {
			return false, "function " + st.Args[0] + " not found"
		}
		for _, b := range fn.Blocks {
			for _, in := range b.Instrs {
				if d, ok := in.(*ssa.Defer); ok && matchPattern(st.Args[1], calleeName(d.Common())) {
					return true, ""
				}
			}
		}
		return false, fmt.Sprintf("%s does not defer %s", st.Args[0], st.Args[1])
	}
	return false, "unknown structural kind " + st.Kind
}

// ---------- structural data-flow obligation: noflow ----------
//
//   structural NAME props Cxx : noflow FUNC from SRC[,SRC...] to SINKPATTERN [clean PATTERN[,PATTERN...]]
//
// SRC is "param:<name>" or "ret:<callee pattern>:<index>". Every value computed from a source is tainted
// (conservatively: any instruction with a tainted operand, stores into local cells/arrays, results of calls with
// tainted arguments unless the callee matches a `clean` pattern; same-package callees are followed).
// The obligation holds iff no call matching SINKPATTERN receives a tainted argument.
func (p *Prog) noflow(st Structural) (bool, string) {
	args := st.Args
	if len(args) < 5 || args[1] != "from" || args[3] != "to" {
		return false, "noflow FUNC from SRCS to SINK [clean PATTERNS]"
	}
	var fn *ssa.Function
	for k, f := range p.funcs {
		if matchPattern(args[0], k) && pkgPathOf(f) == st.PkgPath {
			fn = f
		}
	}
	if fn == nil || fn.Blocks == nil {
		return false, "function " + args[0] + " not found in " + st.PkgPath
	}
	srcs := strings.Split(args[2], ",")
	sink := args[4]
	var clean []string
	if len(args) >= 7 && args[5] == "clean" {
		clean = strings.Split(args[6], ",")
	}
	var hits []string
	seeded := 0
	var analyse func(fn *ssa.Function, taintedParams map[int]bool, depth int)
	analyse = func(fn *ssa.Function, taintedParams map[int]bool, depth int) {
		tainted := map[ssa.Value]bool{}
		for i, prm := range fn.Params {
			if taintedParams[i] {
				tainted[prm] = true
			}
			if depth == 0 {
				for _, s := range srcs {
					if s == "param:"+prm.Name() {
						tainted[prm] = true
						seeded++
					}
				}
			}
		}
		isClean := func(name string) bool {
			for _, c := range clean {
				if matchPattern(c, name) {
					return true
				}
			}
			return false
		}
		changed := true
		for iter := 0; changed && iter < 50; iter++ {
			changed = false
			mark := func(v ssa.Value) {
				// numbers and booleans (a command byte, a length, a flag) do not carry statement text
				if v != nil {
					if b, ok := v.Type().Underlying().(*types.Basic); ok && b.Info()&(types.IsNumeric|types.IsBoolean) != 0 {
						return
					}
				}
				if v != nil && !tainted[v] {
					tainted[v] = true
					changed = true
				}
			}
			for _, b := range fn.Blocks {
				for _, in := range b.Instrs {
					// sources: results of calls
					if ex, ok := in.(*ssa.Extract); ok && depth == 0 {
						if call, ok := ex.Tuple.(*ssa.Call); ok {
							for _, s := range srcs {
								parts := strings.Split(s, ":")
								if len(parts) == 3 && parts[0] == "ret" && matchPattern(parts[1], calleeName(call.Common())) && fmt.Sprint(ex.Index) == parts[2] {
									if !tainted[ex] {
										seeded++
									}
									mark(ex)
								}
							}
						}
					}
					// ... or the single result of a call
					if call, ok := in.(*ssa.Call); ok && depth == 0 {
						if _, isTuple := call.Type().(*types.Tuple); !isTuple {
							for _, s := range srcs {
								parts := strings.Split(s, ":")
								if len(parts) == 3 && parts[0] == "ret" && parts[2] == "0" && matchPattern(parts[1], calleeName(call.Common())) {
									if !tainted[call] {
										seeded++
									}
									mark(call)
								}
							}
						}
					}
					anyT := false
					for _, op := range in.Operands(nil) {
						if *op != nil && tainted[*op] {
							anyT = true
						}
					}
					if !anyT {
						continue
					}
					switch x := in.(type) {
					case *ssa.Store:
						if tainted[x.Val] {
							// taint the cell (and the array/struct it belongs to)
							root := x.Addr
							for {
								switch a := root.(type) {
								case *ssa.IndexAddr:
									root = a.X
									continue
								case *ssa.FieldAddr:
									root = a.X
									continue
								}
								break
							}
							mark(root)
							mark(x.Addr)
						}
					case *ssa.MapUpdate:
						// logrus.Fields{"sql": query}: the map carries what is put into it
						if tainted[x.Value] || tainted[x.Key] {
							mark(x.Map)
						}
					case *ssa.Call:
						name := calleeName(x.Common())
						if isClean(name) {
							continue
						}
						if callee := x.Common().StaticCallee(); callee != nil && callee.Blocks != nil && pkgPathOf(callee) == pkgPathOf(fn) && depth < 3 && !matchPattern(sink, name) {
							tp := map[int]bool{}
							for i, a := range x.Common().Args {
								if tainted[a] {
									tp[i] = true
								}
							}
							analyse(callee, tp, depth+1)
						}
						mark(x)
					case ssa.Value:
						if _, isExtract := in.(*ssa.Extract); isExtract {
							// results of a clean call stay clean; others inherit
							if call, ok := in.(*ssa.Extract).Tuple.(*ssa.Call); ok && isClean(calleeName(call.Common())) {
								continue
							}
						}
						mark(x)
					}
				}
			}
		}
		for _, b := range fn.Blocks {
			for _, in := range b.Instrs {
				var c *ssa.CallCommon
				switch x := in.(type) {
				case *ssa.Call:
					c = x.Common()
				case *ssa.Defer:
					c = x.Common()
				case *ssa.Go:
					c = x.Common()
				}
				if c != nil && os.Getenv("ACV_DEBUG_NOFLOW") == "2" && strings.Contains(calleeName(c), "logrus") {
					ta := false
					for _, a := range c.Args {
						if tainted[a] {
							ta = true
						}
					}
					fmt.Printf("  sinkcand %s match=%v taintedArg=%v pos=%s\n", calleeName(c), matchPattern(sink, calleeName(c)), ta, p.posString(in.Pos()))
				}
				if c == nil || !matchPattern(sink, calleeName(c)) {
					continue
				}
				for _, a := range c.Args {
					if tainted[a] {
						hits = append(hits, fmt.Sprintf("%s: call of %s at %s receives a value derived from %s", fn.String(), calleeName(c), p.posString(in.Pos()), strings.Join(srcs, ",")))
						break
					}
				}
				if c.IsInvoke() && tainted[c.Value] {
					hits = append(hits, fmt.Sprintf("%s: receiver of %s at %s is derived from a source", fn.String(), calleeName(c), p.posString(in.Pos())))
				}
			}
		}
	}
	analyse(fn, nil, 0)
	if os.Getenv("ACV_DEBUG_NOFLOW") != "" {
		fmt.Printf("noflow %s in %s: fn=%s seeded=%d hits=%d\n", st.Name, st.PkgPath, fn.String(), seeded, len(hits))
	}
	if seeded == 0 {
		return false, "no source matched in " + fn.String() + " (contract is stale): " + strings.Join(srcs, ",")
	}
	if len(hits) > 0 {
		sort.Strings(hits)
		return false, strings.Join(hits, "\n")
	}
	return true, ""
}

// readonlyFieldKey identifies a struct field declared read-only after construction.
func readonlyFieldKey(t types.Type, field string) string {
	if pt, ok := t.(*types.Pointer); ok {
		t = pt.Elem()
	}
	return types.TypeString(t, nil) + "." + field
}

// readonlyFields collects the fields named by field-readonly structurals of the loaded contract files.
func (p *Prog) readonlyFields() map[string]bool {
	if p.roFields != nil {
		return p.roFields
	}
	p.roFields = map[string]bool{}
	for _, st := range p.contracts.Structurals {
		if st.Kind != "field-readonly" || len(st.Args) < 1 {
			continue
		}
		k := strings.LastIndex(st.Args[0], ".")
		if k < 0 {
			continue
		}
		if _, loaded := p.byPath[st.PkgPath]; !loaded {
			continue // the obligation is not checked in this run, so the assumption is not used either
		}
		o, _ := p.lookupNamed(st.PkgPath, st.Args[0][:k])
		tn, ok := o.(*types.TypeName)
		if !ok {
			continue
		}
		p.roFields[readonlyFieldKey(tn.Type(), st.Args[0][k+1:])] = true
	}
	return p.roFields
}

func (p *Prog) isReadonlyField(t types.Type, i int) bool {
	st, ok := t.Underlying().(*types.Struct)
	if !ok || i >= st.NumFields() {
		return false
	}
	return p.readonlyFields()[readonlyFieldKey(t, st.Field(i).Name())]
}

// fieldReadonly: "field-readonly T.f [allow F ...]": in every loaded function other than the allowed constructors
// the field is only loaded: no store through its address, its address does not escape, and no whole-struct store to
// a *T overwrites it. The encoder relies on it: calls do not havoc T.f.
func (p *Prog) fieldReadonly(st Structural) (bool, string) {
	if len(st.Args) < 1 {
		return false, "field-readonly needs T.f"
	}
	k := strings.LastIndex(st.Args[0], ".")
	if k < 0 {
		return false, "field-readonly needs T.f"
	}
	o, _ := p.lookupNamed(st.PkgPath, st.Args[0][:k])
	tn, ok := o.(*types.TypeName)
	if !ok {
		return false, "type " + st.Args[0][:k] + " not found"
	}
	stt, ok := tn.Type().Underlying().(*types.Struct)
	if !ok {
		return false, st.Args[0][:k] + " is not a struct"
	}
	idx := -1
	for i := 0; i < stt.NumFields(); i++ {
		if stt.Field(i).Name() == st.Args[0][k+1:] {
			idx = i
		}
	}
	if idx < 0 {
		return false, "no field " + st.Args[0][k+1:]
	}
	if stt.Field(idx).Exported() {
		return false, "field-readonly is only supported for unexported fields (other packages could write an exported one)"
	}
	allowed := map[string]bool{}
	for i := 1; i < len(st.Args); i++ {
		if st.Args[i] != "allow" {
			allowed[st.Args[i]] = true
		}
	}
	isAllowed := func(fn *ssa.Function) bool {
		for a := range allowed {
			if matchPattern(a, fn.String()) || fn.Name() == a {
				return true
			}
		}
		return false
	}
	var bad []string
	seen := 0
	for _, fn := range p.funcs {
		if fn.Blocks == nil || fn.Pkg == nil || fn.Pkg.Pkg.Path() != tn.Pkg().Path() {
			continue
		}
		for _, b := range fn.Blocks {
			for _, in := range b.Instrs {
				switch x := in.(type) {
				case *ssa.FieldAddr:
					pt, ok := x.X.Type().Underlying().(*types.Pointer)
					if !ok || !types.Identical(pt.Elem(), tn.Type()) || x.Field != idx {
						continue
					}
					seen++
					if x.Referrers() == nil {
						continue
					}
					for _, r := range *x.Referrers() {
						switch rr := r.(type) {
						case *ssa.UnOp, *ssa.DebugRef:
						case *ssa.Store:
							if rr.Addr == ssa.Value(x) && !isAllowed(fn) {
								bad = append(bad, fn.String()+" stores to the field")
							} else if rr.Val == ssa.Value(x) {
								bad = append(bad, fn.String()+" lets the field's address escape")
							}
						default:
							bad = append(bad, fmt.Sprintf("%s uses the field's address in %T", fn.String(), r))
						}
					}
				case *ssa.Store:
					// whole-struct assignment *p = v
					if pt, ok := x.Addr.Type().Underlying().(*types.Pointer); ok && types.Identical(pt.Elem(), tn.Type()) && !isAllowed(fn) {
						if _, isAlloc := x.Addr.(*ssa.Alloc); !isAlloc {
							bad = append(bad, fn.String()+" overwrites a whole "+tn.Name())
						}
					}
				}
			}
		}
	}
	if seen == 0 {
		return false, "the field is never referenced in the loaded code (stale structural obligation)"
	}
	if len(bad) > 0 {
		sort.Strings(bad)
		return false, strings.Join(bad, "; ")
	}
	return true, ""
}
