package main

// Calls: builtins, hand-written models of library functions (A7), contracts, inlining, havoc.

import (
	"fmt"
	"go/ast"
	"go/types"
	"regexp"
	"sort"
	"strings"

	"golang.org/x/tools/go/ssa"
)

type allocSite struct {
	instr ssa.Instruction
	size  Term
	guard Term
	inl   *Frame
}

// calleeName returns the canonical name used for pattern matching and contract lookup.
func calleeName(c *ssa.CallCommon) string {
	if c.IsInvoke() {
		// named by the static receiver type: (hash.Hash).Write rather than (io.Writer).Write
		if n, ok := c.Value.Type().(*types.Named); ok && n.Obj().Pkg() != nil {
			return "(" + n.Obj().Pkg().Path() + "." + n.Obj().Name() + ")." + c.Method.Name()
		}
		return c.Method.FullName()
	}
	switch v := c.Value.(type) {
	case *ssa.Function:
		return v.String()
	case *ssa.Builtin:
		return "builtin." + v.Name()
	case *ssa.MakeClosure:
		return v.Fn.(*ssa.Function).String()
	}
	// dynamic call through a function value: name it after the source variable when there is one
	switch v := c.Value.(type) {
	case *ssa.Phi:
		if v.Comment != "" {
			return "dynamic." + v.Comment
		}
	case *ssa.UnOp:
		if fa, ok := v.X.(*ssa.FieldAddr); ok {
			if st, ok := fa.X.Type().Underlying().(*types.Pointer).Elem().Underlying().(*types.Struct); ok {
				return "dynamic." + st.Field(fa.Field).Name()
			}
		}
		if g, ok := v.X.(*ssa.Global); ok {
			return "dynamic." + g.Name()
		}
	}
	return "dynamic." + c.Value.Name()
}

var normRe = regexp.MustCompile(`[()*]`)

// normName: "(*github.com/a/b/pkg.T).M" -> "pkg.T.M"
func normName(full string) string {
	s := normRe.ReplaceAllString(full, "")
	// strip directory part of the package path (everything up to the last '/' before the first '.')
	if k := strings.LastIndex(s, "/"); k >= 0 {
		s = s[k+1:]
	}
	return s
}

// fullNorm: same but keeps the full package path
func fullNorm(full string) string { return normRe.ReplaceAllString(full, "") }

func matchPattern(pat, full string) bool {
	if pat == "*" {
		return true
	}
	// wildcards are recognised before '*' (pointer receivers) is stripped from the pattern
	tailWild := strings.HasSuffix(pat, ".*")
	headWild := strings.HasPrefix(pat, "*.")
	if tailWild {
		pat = pat[:len(pat)-1]
	}
	if headWild {
		pat = pat[1:]
	}
	p := normRe.ReplaceAllString(pat, "")
	n := normName(full)
	fn := fullNorm(full)
	if strings.Contains(p, "/") {
		n = fn
	}
	if tailWild {
		pre := p
		// "pkg.*" also names the methods of pkg's types: (*path/to/pkg.T).M normalises to path/to/pkg.T.M
		return strings.HasPrefix(n, pre) || strings.Contains(n, "."+pre) || strings.HasPrefix(fn, pre) || strings.Contains(fn, "/"+pre)
	}
	if headWild {
		return strings.HasSuffix(n, p)
	}
	return n == p || strings.HasSuffix(n, "."+p)
}

func ghostName(kind, pat string, idx int) string {
	if idx >= 0 {
		return fmt.Sprintf("ghost_%s_%s_%d", kind, sanitize(pat), idx)
	}
	return fmt.Sprintf("ghost_%s_%s", kind, sanitize(pat))
}

// explicitArgs splits receiver and explicit arguments of a call.
func (f *Frame) explicitArgs(c *ssa.CallCommon, args []Value) (recv *Value, rest []Value, restVals []ssa.Value) {
	if c.IsInvoke() {
		rv := f.val(c.Value)
		return &rv, args, c.Args
	}
	if fn := c.StaticCallee(); fn != nil && fn.Signature.Recv() != nil && len(args) > 0 {
		return &args[0], args[1:], c.Args[1:]
	}
	return nil, args, c.Args
}

func (f *Frame) call(instr ssa.Instruction, c *ssa.CallCommon, rt types.Type) Value {
	args := make([]Value, len(c.Args))
	for i, a := range c.Args {
		args[i] = f.val(a)
	}
	return f.doCall(instr, c, args, rt, f.val(c.Value))
}

func (f *Frame) doCall(instr ssa.Instruction, c *ssa.CallCommon, args []Value, rt types.Type, fnv Value) Value {
	e := f.e
	name := calleeName(c)
	top := f.topFrame()
	// ---- site assertions of the top-level contract
	if e.contract != nil {
		for si := range e.contract.Sites {
			site := &e.contract.Sites[si]
			spat, sord := site.Pattern, -1
			if k := strings.LastIndex(spat, "#"); k >= 0 {
				fmt.Sscanf(spat[k+1:], "%d", &sord)
				spat = spat[:k]
			}
			if !matchPattern(spat, name) {
				continue
			}
			if sord >= 0 && e.siteCount(spat, instr) != sord {
				continue
			}
			env := f.baseEnv(f.st)
			if f.parent == nil && instr.Block() != nil {
				// source-level locals visible at the call site
				for nm, v := range f.localsDominating(instr.Block()) {
					if _, isParam := f.paramNames()[nm]; isParam {
						continue
					}
					f.bindLocal(env, nm, v, f.st, false)
				}
				for nm, v := range f.localsBefore(instr) {
					if _, isParam := f.paramNames()[nm]; isParam {
						continue
					}
					f.bindLocal(env, nm, v, f.st, false)
				}
			}
			f.bindCallEnv(env, c, args)
			t, err := env.evalBool(site.Cl.Expr)
			oname := fmt.Sprintf("%s#site-assert:%s:%s", shortFuncName(top.fn), site.Pattern, clauseLabel(site.Cl, si))
			if err != nil {
				e.specError(fmt.Sprintf("%s: %v", oname, err))
				continue
			}
			props := site.Props
			if len(props) == 0 {
				props = e.contract.Props
			}
			// vacuity check: the call site must be reachable, otherwise the clause says nothing (deferred calls are
			// replayed at every exit under their registration guard; those instances are not sites of their own)
			if top.inDefers == 0 {
			e.oblNames["cover:"+oname]++
			cvName := oname
			if k := e.oblNames["cover:"+oname]; k > 1 {
				cvName = fmt.Sprintf("%s~%d", oname, k-1)
			}
			e.covers = append(e.covers, &Obligation{Name: strings.Replace(cvName, "#site-assert:", "#cover:site:", 1), Kind: "cover", Goal: f.guard, CmdIdx: len(e.cmds), Cover: true, Props: props})
			}
			o := e.addObl("site-assert", oname, f.guard, t, props)
			o.Text = site.Cl.Text
			o.Pos = e.p.posString(instr.Pos())
			e.siteHits[si]++
			// assert-then-assume: the clause is an obligation of its own, so later obligations may use it as a lemma
			// (this is what lets a long chain of position updates be proved one step at a time)
			e.assume(implies(f.guard, t))
		}
	}
	res := f.dispatchCall(instr, c, args, rt, fnv, name)
	// ---- ghost tracking ("P" = latest call of P on the path; "P#k" = the k-th call site of P in encoding order)
	if e.callOrd == nil {
		e.callOrd = map[string]int{}
		e.callOrdSite = map[ssa.Instruction]map[string]int{}
	}
	for _, pat0 := range e.tracked {
		pat := pat0
		want := -1
		if k := strings.LastIndex(pat0, "#"); k >= 0 {
			pat = pat0[:k]
			fmt.Sscanf(pat0[k+1:], "%d", &want)
		}
		if !matchPattern(pat, name) {
			continue
		}
		if want >= 0 {
			m := e.callOrdSite[instr]
			if m == nil {
				m = map[string]int{}
				e.callOrdSite[instr] = m
			}
			ord, seen := m[pat]
			if !seen {
				ord = e.callOrd[pat+"@"+fmt.Sprint(want >= 0)]
				// ordinal of this call site among the sites matching pat (each site counted once)
				ord = e.siteCount(pat, instr)
				m[pat] = ord
			}
			if ord != want {
				continue
			}
		}
		pat = pat0
		f.st.heaps[ghostName("called", pat, -1)] = tTrue
		f.st.heaps[ghostName("itercalled", pat, -1)] = tTrue
		_, rest, restVals := f.explicitArgs(c, args)
		for i, a := range rest {
			t := e.valTerm(a, restVals[i].Type())
			gn := ghostName("arg", pat, i)
			e.ghostSorts[gn] = t.Sort
			e.ghostTypes[gn] = restVals[i].Type()
			f.st.heaps[gn] = t
		}
		var rvals []Value
		var rtypes []types.Type
		if tup, ok := rt.(*types.Tuple); ok {
			rvals = res.Tuple
			for i := 0; i < tup.Len(); i++ {
				rtypes = append(rtypes, tup.At(i).Type())
			}
		} else {
			rvals = []Value{res}
			rtypes = []types.Type{rt}
		}
		for i, r := range rvals {
			if i >= len(rtypes) {
				break
			}
			t := e.valTerm(r, rtypes[i])
			gn := ghostName("ret", pat, i)
			e.ghostSorts[gn] = t.Sort
			e.ghostTypes[gn] = rtypes[i]
			f.st.heaps[gn] = t
		}
	}
	return res
}

func (f *Frame) paramNames() map[string]bool {
	m := map[string]bool{}
	for _, p := range f.fn.Params {
		m[p.Name()] = true
	}
	if c := f.e.contract; c != nil {
		for _, n := range c.Params {
			m[n] = true
		}
	}
	return m
}

// siteCount returns the ordinal of a call site among all call sites matching pat, in order of first encoding.
func (e *Enc) siteCount(pat string, instr ssa.Instruction) int {
	lst := e.callSites[pat]
	for i, in := range lst {
		if in == instr {
			return i
		}
	}
	if e.callSites == nil {
		e.callSites = map[string][]ssa.Instruction{}
	}
	e.callSites[pat] = append(lst, instr)
	return len(lst)
}

func (f *Frame) bindCallEnv(env *SpecEnv, c *ssa.CallCommon, args []Value) {
	recv, rest, restVals := f.explicitArgs(c, args)
	env.args = nil
	for i, a := range rest {
		env.args = append(env.args, SpecVal{T: f.e.valTerm(a, restVals[i].Type()), Typ: restVals[i].Type(), V: a})
	}
	if recv != nil {
		var rtyp types.Type
		if c.IsInvoke() {
			rtyp = c.Value.Type()
		} else {
			rtyp = c.Args[0].Type()
		}
		env.vars["recv"] = SpecVal{T: f.e.valTerm(*recv, rtyp), Typ: rtyp, V: *recv}
	}
}

func (f *Frame) dispatchCall(instr ssa.Instruction, c *ssa.CallCommon, args []Value, rt types.Type, fnv Value, name string) Value {
	e := f.e
	// builtins
	if b, ok := c.Value.(*ssa.Builtin); ok {
		return f.builtin(instr, b, c, args, rt)
	}
	// hand-written models
	if m, ok := externModels[name]; ok {
		e.trust("library model (A7): " + name)
		return m(f, instr, c, args, rt)
	}
	// contracts
	if c.IsInvoke() && e.p.contracts.ByKey[name] == nil {
		if alt := c.Method.FullName(); e.p.contracts.ByKey[alt] != nil {
			name = alt
		}
	}
	if f.parent == nil && e.contract != nil {
		for _, pat := range e.contract.Opaque {
			if matchPattern(pat, name) {
				e.note("callee treated as an unknown call here (opaque): " + name)
				return f.unknownCall(instr, c, args, rt, name)
			}
		}
	}
	if ct := e.p.contracts.ByKey[name]; ct != nil {
		if !(f.parent == nil && c.StaticCallee() == f.fn && false) {
			return f.applyContract(instr, ct, c, args, rt, name)
		}
	}
	var callee *ssa.Function
	var free []Value
	if c.IsInvoke() {
		callee = nil
	} else if fn := c.StaticCallee(); fn != nil {
		callee = fn
		if mc, ok := c.Value.(*ssa.MakeClosure); ok {
			for _, b := range mc.Bindings {
				free = append(free, f.val(b))
			}
		}
	} else if fnv.Clo != nil {
		callee = fnv.Clo.fn
		free = fnv.Clo.bindings
	} else if fnv.Fn != nil {
		callee = fnv.Fn
	}
	if callee != nil {
		if ct := e.p.contracts.ByKey[callee.String()]; ct != nil && callee != c.StaticCallee() {
			return f.applyContract(instr, ct, c, args, rt, callee.String())
		}
		noinline := false
		if e.contract != nil {
			for _, pat := range e.contract.NoInline {
				if matchPattern(pat, name) || matchPattern(pat, callee.String()) {
					noinline = true
				}
			}
		}
		if callee.Blocks != nil && !noinline && f.canInline(callee) {
			return f.inline(instr, callee, args, free, rt)
		}
	}
	if isEffectFree(name) {
		return f.pureCall(instr, c, args, rt, name)
	}
	return f.unknownCall(instr, c, args, rt, name)
}

const maxInlineDepth = 5

func (f *Frame) canInline(fn *ssa.Function) bool {
	if f.depth >= maxInlineDepth {
		return false
	}
	if len(fn.Blocks) > 120 {
		return false
	}
	for fr := f; fr != nil; fr = fr.parent {
		if fr.fn == fn {
			return false
		}
	}
	// only same-package callees are inlined (cross-package calls are modular: contract or havoc), so that
	// what is proved about a function does not depend on which other packages happen to be loaded
	if pp := pkgPathOf(fn); pp != "" && pp != pkgPathOf(f.topFrame().fn) {
		return false
	}
	if fn.Pkg == nil && fn.Parent() == nil {
		// synthetic wrappers (bound methods, thunks)
		if fn.Synthetic == "" {
			return false
		}
	}
	return true
}

func (f *Frame) inline(instr ssa.Instruction, callee *ssa.Function, args []Value, free []Value, rt types.Type) Value {
	e := f.e
	e.inlineN++
	nf := &Frame{e: e, fn: callee, prefix: fmt.Sprintf("i%d_", e.inlineN), depth: f.depth + 1, parent: f, safety: f.safety, freeVals: free}
	e.inlined[callee.String()] = true
	results, st, rg := nf.run(f.guard, f.st, args)
	f.st = st.clone()
	f.guard = rg
	if len(results) == 0 {
		return Value{}
	}
	if _, ok := rt.(*types.Tuple); ok {
		return Value{Tuple: results}
	}
	return results[0]
}

// ---------- contracts at call sites ----------

func (f *Frame) applyContract(instr ssa.Instruction, ct *Contract, c *ssa.CallCommon, args []Value, rt types.Type, name string) Value {
	e := f.e
	if ct.Assumed {
		e.trust("assumed contract: " + ct.Key)
	} else {
		e.usedContracts[ct.Key] = true
	}
	sig := c.Signature()
	env := f.baseEnv(f.st)
	env.pkg = e.p.pkgByPath(ct.PkgPath)
	// bind parameters: contract params = [recv] + explicit
	var all []Value
	var allT []types.Type
	if c.IsInvoke() {
		all = append(all, f.val(c.Value))
		allT = append(allT, c.Value.Type())
	}
	for i, a := range args {
		all = append(all, a)
		allT = append(allT, c.Args[i].Type())
	}
	if len(all) != len(ct.Params) {
		e.specError(fmt.Sprintf("contract %s: header has %d parameters, call has %d", ct.Key, len(ct.Params), len(all)))
		return f.unknownCall(instr, c, args, rt, name)
	}
	for i, pn := range ct.Params {
		env.vars[pn] = SpecVal{T: e.valTerm(all[i], allT[i]), Typ: allT[i], V: all[i]}
	}
	top := shortFuncName(f.topFrame().fn)
	for i, rq := range ct.Requires {
		t, err := env.evalBool(rq.Expr)
		if err != nil {
			e.specError(fmt.Sprintf("contract %s requires %q: %v", ct.Key, rq.Text, err))
			continue
		}
		o := e.addObl("callee-requires", fmt.Sprintf("%s#callee-requires:%s:%s", top, normName(ct.Key), clauseLabel(rq, i)), f.guard, t, e.contractProps())
		o.Pos = e.p.posString(instr.Pos())
		o.ReplayOK = true
		e.assume(implies(f.guard, t))
	}
	pre := f.st.clone()
	// frame
	if ct.HasMod {
		for _, m := range ct.Modifies {
			f.havocModifies(env, m, ct)
		}
	} else {
		// a contract without a modifies clause says nothing about memory: like an unknown call, the callee may write
		// whatever is reachable from its arguments (A4). Only a modifies clause (proved by the callee's frame
		// obligations, or trusted for an assumed contract) lets a caller keep facts about argument-reachable memory.
		f.havocArgs(c, args)
	}
	e.bumpWm(f.st)
	// results
	var res Value
	var rvals []Value
	nres := sig.Results().Len()
	for i := 0; i < nres; i++ {
		rtp := sig.Results().At(i).Type()
		var v Value
		if ct.Pure {
			v = Value{T: f.ufResult(ct.Key, i, all, allT, rtp)}
			e.assumeExisting(f.st, f.guard, v.T, rtp)
		} else {
			v = f.havocTyped(fmt.Sprintf("%s_r%d", sanitize(normName(ct.Key)), i), rtp)
		}
		rvals = append(rvals, v)
	}
	if len(ct.Results) != nres {
		e.specError(fmt.Sprintf("contract %s: header has %d results, function has %d", ct.Key, len(ct.Results), nres))
	} else {
		post := f.baseEnv(f.st)
		post.pkg = env.pkg
		post.old = pre
		for k, v := range env.vars {
			post.vars[k] = v
		}
		for i, rn := range ct.Results {
			post.vars[rn] = SpecVal{T: rvals[i].T, Typ: sig.Results().At(i).Type(), V: rvals[i]}
		}
		// `opt useonly PATTERN name,name`: at calls of PATTERN only the named postconditions of the callee are assumed
		// (a sound weakening that keeps value-describing clauses the caller does not need out of its queries)
		var useOnly map[string]bool
		if f.parent == nil && e.contract != nil && e.contract.Opts["useonly"] != "" {
			if pat, names := splitWord(e.contract.Opts["useonly"]); matchPattern(pat, name) {
				useOnly = map[string]bool{}
				for _, n := range strings.Split(names, ",") {
					useOnly[strings.TrimSpace(n)] = true
				}
			}
		}
		for _, en := range ct.Ensures {
			if strings.Contains(en.Text, "ret(") || strings.Contains(en.Text, "called(") || strings.Contains(en.Text, "argof(") {
				continue // refers to the callee's internal call history: proved in the callee, not visible to callers
			}
			if useOnly != nil && !useOnly[en.Name] {
				continue
			}
			t, err := post.evalBool(en.Expr)
			if err != nil {
				e.specError(fmt.Sprintf("contract %s ensures %q: %v", ct.Key, en.Text, err))
				continue
			}
			e.assume(implies(f.guard, t))
		}
	}
	if nres == 1 {
		res = rvals[0]
	} else if nres > 1 {
		res = Value{Tuple: rvals}
	}
	return res
}

func (e *Enc) contractProps() []string {
	if e.contract != nil {
		return e.contract.Props
	}
	return nil
}

func (f *Frame) ufResultSorts(key string, i int, all []Value, rtp types.Type) Term {
	e := f.e
	n := fmt.Sprintf("uf_%s_%d", sanitize(normName(key)), i)
	var sorts []string
	var ts []Term
	for _, a := range all {
		sorts = append(sorts, string(a.T.Sort))
		ts = append(ts, a.T)
	}
	rs := e.sortOf(rtp)
	e.predeclare(n, fmt.Sprintf("(declare-fun %s (%s) %s)", n, strings.Join(sorts, " "), rs))
	if len(ts) == 0 {
		return sym(n, rs)
	}
	return app(rs, n, ts...)
}

func (f *Frame) ufResult(key string, i int, all []Value, allT []types.Type, rtp types.Type) Term {
	e := f.e
	n := fmt.Sprintf("uf_%s_%d", sanitize(normName(key)), i)
	var sorts []string
	var ts []Term
	for k, a := range all {
		t := e.valTerm(a, allT[k])
		sorts = append(sorts, string(t.Sort))
		ts = append(ts, t)
	}
	// byte-slice arguments also contribute their content
	rs := e.sortOf(rtp)
	e.predeclare(n, fmt.Sprintf("(declare-fun %s (%s) %s)", n, strings.Join(sorts, " "), rs))
	if len(ts) == 0 {
		return sym(n, rs)
	}
	return app(rs, n, ts...)
}

// modTarget describes one entry of a modifies clause.
//   x        (slice)            -> contents of the region of x
//   x        (pointer)          -> every field of object x
//   x.f      (x pointer)        -> the field cell x.f only
//   x.f[*]   / x[*]             -> contents of the region of the slice x.f / x
type modTarget struct {
	region *Term  // element-heap region allowed to change
	obj    *Term  // object whose fields may change (all fields, or only field when heap != "")
	heap   string // field heap name for field-level targets
	eheap  string // element heap of a slice whose element is pointed to (interior pointer target)
	ehsort Sort
	typ    types.Type
	val    Term
}

func (env *SpecEnv) modTargets(m string) ([]modTarget, error) {
	e := env.e
	contents := false
	if strings.HasSuffix(m, "[*]") {
		contents = true
		m = strings.TrimSuffix(m, "[*]")
	}
	if strings.HasPrefix(m, "*") {
		// *p : every field of the object p points to (p itself may be a field expression)
		contents = true
		m = strings.TrimPrefix(m, "*")
	}
	cl, err := parseClause(m)
	if err != nil {
		return nil, err
	}
	// a pointer that is the address of a slice element (&s[i]) or of a field inside one: the pointee lives in the
	// element heap of that slice, so the target is (coarsely) the whole region of the slice in that heap
	interior := func(v SpecVal) *modTarget {
		if a := v.V.Addr; a != nil && strings.HasPrefix(a.heap, "HE_") && len(a.keys) >= 1 {
			r := a.keys[0]
			return &modTarget{region: &r, eheap: a.heap, ehsort: a.hsort}
		}
		return nil
	}
	if sel, ok := cl.Expr.(*ast.SelectorExpr); ok {
		if base, err := env.eval(sel.X); err == nil {
			if t := interior(base); t != nil {
				return []modTarget{*t}, nil
			}
		}
	}
	if sel, ok := cl.Expr.(*ast.SelectorExpr); ok && !contents {
		base, err := env.eval(sel.X)
		if err == nil && base.Typ != nil {
			if p, ok := base.Typ.Underlying().(*types.Pointer); ok {
				if st, ok := p.Elem().Underlying().(*types.Struct); ok {
					for i := 0; i < st.NumFields(); i++ {
						if st.Field(i).Name() == sel.Sel.Name {
							hn, _ := e.fieldHeapName(p.Elem(), i)
							o := base.T
							return []modTarget{{obj: &o, heap: hn, typ: st.Field(i).Type()}}, nil
						}
					}
				}
			}
		}
	}
	v, err := env.eval(cl.Expr)
	if err != nil {
		return nil, err
	}
	if t := interior(v); t != nil {
		return []modTarget{*t}, nil
	}
	if v.T.Sort == SSlice {
		r := sReg(v.T)
		return []modTarget{{region: &r, typ: v.Typ, val: v.T}}, nil
	}
	o := v.T
	return []modTarget{{obj: &o, typ: v.Typ, val: v.T}}, nil
}

func (f *Frame) havocModifies(env *SpecEnv, m string, ct *Contract) {
	e := f.e
	if m == "*" {
		f.havocAll()
		return
	}
	if m == "bytes" {
		hn, hs := e.elemHeapName(SBV8)
		f.st.heaps[hn] = e.havoc(hn+"_hv", hs)
		return
	}
	ts, err := env.modTargets(m)
	if err != nil {
		e.specError(fmt.Sprintf("contract %s modifies %q: %v", ct.Key, m, err))
		return
	}
	for _, t := range ts {
		switch {
		case t.eheap != "":
			h := e.heap(f.st, t.eheap, t.ehsort)
			e.setHeap(f.st, t.eheap, store(h, *t.region, e.havoc(t.eheap+"_hv", arrayElem(t.ehsort))))
		case t.heap != "":
			hs := arraySort(SRef, e.sortOf(t.typ))
			h := e.heap(f.st, t.heap, hs)
			fv := e.havoc(t.heap+"_hv", e.sortOf(t.typ))
			e.assumeExisting(f.st, tTrue, fv, t.typ)
			e.setHeap(f.st, t.heap, store(h, *t.obj, fv))
		default:
			f.havocValue(t.val, t.typ, 0)
		}
	}
}

// havocValue havocs memory directly reachable from a value (slice region / object fields).
func (f *Frame) havocValue(t Term, typ types.Type, depth int) {
	e := f.e
	if typ == nil || t.S == "" {
		return
	}
	switch u := typ.Underlying().(type) {
	case *types.Slice:
		hn, hs := e.elemHeapName(e.sortOf(u.Elem()))
		h := e.heap(f.st, hn, hs)
		fresh := e.havoc(hn+"_hv", arrayElem(hs))
		e.setHeap(f.st, hn, store(h, sReg(t), fresh))
		if depth < 1 && refLike(u.Elem()) {
			f.havocTypeHeaps(u.Elem(), depth+1)
		}
	case *types.Pointer:
		elem := u.Elem()
		switch eu := elem.Underlying().(type) {
		case *types.Struct:
			for i := 0; i < eu.NumFields(); i++ {
				if e.p.isReadonlyField(elem, i) {
					// not writable outside its constructors (structural obligation); what it points to still is
					if depth < 1 && refLike(eu.Field(i).Type()) {
						f.havocTypeHeaps(eu.Field(i).Type(), depth+1)
					}
					continue
				}
				loc := e.fieldLoc(elem, i, t)
				fv := e.havoc(loc.heap+"_hv", e.sortOf(eu.Field(i).Type()))
				e.assumeExisting(f.st, tTrue, fv, eu.Field(i).Type())
				e.storeAddr(f.st, loc, fv)
				if depth < 1 && refLike(eu.Field(i).Type()) {
					f.havocTypeHeaps(eu.Field(i).Type(), depth+1)
				}
			}
		case *types.Array:
			hn, hs := e.elemHeapName(e.sortOf(eu.Elem()))
			h := e.heap(f.st, hn, hs)
			e.setHeap(f.st, hn, store(h, t, e.havoc(hn+"_hv", arrayElem(hs))))
		default:
			hn, hs := e.cellHeapName(e.sortOf(elem))
			h := e.heap(f.st, hn, hs)
			e.setHeap(f.st, hn, store(h, t, e.havoc(hn+"_hv", arrayElem(hs))))
		}
	case *types.Map:
		pn, ps, vn, vs := e.mapHeaps(u)
		e.setHeap(f.st, pn, store(e.heap(f.st, pn, ps), t, e.havoc(pn+"_hv", arrayElem(ps))))
		e.setHeap(f.st, vn, store(e.heap(f.st, vn, vs), t, e.havoc(vn+"_hv", arrayElem(vs))))
	}
}

func refLike(t types.Type) bool {
	switch t.Underlying().(type) {
	case *types.Slice, *types.Pointer, *types.Map:
		return true
	}
	return false
}

// havocTypeHeaps: heap-level havoc for memory reachable by type (second level of reachability).
func (f *Frame) havocTypeHeaps(t types.Type, depth int) {
	e := f.e
	switch u := t.Underlying().(type) {
	case *types.Slice:
		if isByteSlice(t) {
			return // A4b: byte buffers reachable from arguments are not written by uncontracted callees
		}
		hn, hs := e.elemHeapName(e.sortOf(u.Elem()))
		if _, ok := f.st.heaps[hn]; ok || e.predecl[hn+"@0"] {
			f.st.heaps[hn] = e.havoc(hn+"_hv", hs)
		}
	case *types.Pointer:
		if st, ok := u.Elem().Underlying().(*types.Struct); ok {
			for i := 0; i < st.NumFields(); i++ {
				hn, hs := e.fieldHeapName(u.Elem(), i)
				if _, ok := f.st.heaps[hn]; ok || e.predecl[hn+"@0"] {
					f.st.heaps[hn] = e.havoc(hn+"_hv", hs)
				}
			}
		}
	}
}

func (f *Frame) havocAll() {
	e := f.e
	for k, v := range f.st.heaps {
		if strings.HasPrefix(k, "ghost_") || strings.HasPrefix(k, "G_") || e.readonlyHeaps[k] {
			continue
		}
		f.st.heaps[k] = e.havoc(k+"_hv", v.Sort)
	}
}

// writesByteArgs: callees (by name) that write through []byte arguments. Everything else is assumed to
// leave the contents of byte slices it receives unchanged (A4b: the Go convention for APIs taking []byte).
var writeListRe = regexp.MustCompile(`(?i)(read|zeroize|fill|putuint|encode|decode|copy|xorkeystream|seal|open|scan|unmarshal|marshalto|sum)`)

func writesByteArgs(name string) bool {
	n := normName(name)
	if k := strings.LastIndex(n, "."); k >= 0 {
		n = n[k+1:]
	}
	return writeListRe.MatchString(n)
}

func isByteSlice(t types.Type) bool {
	if s, ok := t.Underlying().(*types.Slice); ok {
		if b, ok := s.Elem().Underlying().(*types.Basic); ok && b.Kind() == types.Uint8 {
			return true
		}
	}
	return false
}

func (f *Frame) havocArgs(c *ssa.CallCommon, args []Value) {
	e := f.e
	writes := writesByteArgs(calleeName(c))
	for i, a := range args {
		at := c.Args[i].Type()
		if !writes && isByteSlice(at) {
			continue
		}
		if a.Addr != nil {
			// escaping interior address: the callee may write the cell
			fv := e.havoc("esc", e.sortOf(a.Addr.typ))
			e.assumeExisting(f.st, tTrue, fv, a.Addr.typ)
			e.storeAddr(f.st, a.Addr, fv)
			continue
		}
		if a.Clo != nil {
			// a function literal handed to the callee (sqlparser.Walk(func…), sort.Slice(…, func…)): the callee may run
			// it, so the variables it captures by reference may change
			for bi, b := range a.Clo.bindings {
				if bi >= len(a.Clo.fn.FreeVars) {
					break
				}
				bt := a.Clo.fn.FreeVars[bi].Type()
				switch bt.Underlying().(type) {
				case *types.Pointer, *types.Slice, *types.Map:
					if b.Addr != nil {
						fv := e.havoc("esc", e.sortOf(b.Addr.typ))
						e.assumeExisting(f.st, tTrue, fv, b.Addr.typ)
						e.storeAddr(f.st, b.Addr, fv)
					} else if b.T.S != "" && !isByteSlice(bt) {
						f.havocValue(b.T, bt, 0)
					}
				}
			}
			continue
		}
		if mi, ok := c.Args[i].(*ssa.MakeInterface); ok {
			// a pointer / slice / map converted to an interface right at the call (json.Unmarshal(data, &x),
			// decoder.Decode(&x)): the callee reaches the pointee through the interface value
			switch mi.X.Type().Underlying().(type) {
			case *types.Pointer, *types.Slice, *types.Map:
				iv := f.val(mi.X)
				if iv.Addr != nil {
					fv := e.havoc("esc", e.sortOf(iv.Addr.typ))
					e.assumeExisting(f.st, tTrue, fv, iv.Addr.typ)
					e.storeAddr(f.st, iv.Addr, fv)
				} else if iv.T.S != "" && (writes || !isByteSlice(mi.X.Type())) {
					f.havocValue(iv.T, mi.X.Type(), 0)
				}
				continue
			}
		}
		if a.T.S == "" {
			continue
		}
		f.havocValue(a.T, at, 0)
	}
	if c.IsInvoke() {
		// A4: the dynamic receiver's own state is not part of verified memory
	}
}

func (f *Frame) unknownCall(instr ssa.Instruction, c *ssa.CallCommon, args []Value, rt types.Type, name string) Value {
	e := f.e
	e.unknownCalls[name] = true
	f.havocArgs(c, args)
	// closures passed or invoked may write their captured cells
	for _, a := range args {
		if a.Clo != nil {
			for _, b := range a.Clo.bindings {
				if b.Addr == nil && b.T.S != "" {
					// captured variable cell (pointer): havoc the cell
				}
			}
		}
	}
	e.bumpWm(f.st)
	return f.havocTyped(sanitize(normName(name))+"_r", rt)
}

func (f *Frame) pureCall(instr ssa.Instruction, c *ssa.CallCommon, args []Value, rt types.Type, name string) Value {
	e := f.e
	e.trust("effect-free library call (A4/A7): " + name)
	e.bumpWm(f.st)
	// deterministic result when every argument is a scalar / string
	det := !c.IsInvoke() && isDeterministic(name)
	var ts []Term
	var ats []types.Type
	for i, a := range args {
		t := e.valTerm(a, c.Args[i].Type())
		switch t.Sort {
		case SSlice, SIface, SRef:
			det = false
		}
		if strings.HasPrefix(string(t.Sort), "(Array") {
			det = false
		}
		ts = append(ts, t)
		ats = append(ats, c.Args[i].Type())
	}
	if det {
		if tup, ok := rt.(*types.Tuple); ok {
			v := Value{}
			for i := 0; i < tup.Len(); i++ {
				v.Tuple = append(v.Tuple, Value{T: f.ufResult(name, i, args, ats, tup.At(i).Type())})
			}
			return v
		}
		if rt != nil {
			if b, ok := rt.Underlying().(*types.Basic); !ok || b.Kind() != types.Invalid {
				return Value{T: f.ufResult(name, 0, args, ats, rt)}
			}
		}
	}
	return f.havocTyped(sanitize(normName(name))+"_r", rt)
}

var effectFreePrefixes = []string{
	"github.com/sirupsen/logrus", "fmt.Sprintf", "fmt.Sprint", "fmt.Errorf", "fmt.Sprintln", "errors.", "strings.", "strconv.", "unicode.", "unicode/utf8.",
	"math.", "math/bits.", "path.", "path/filepath.", "time.", "context.", "go.opencensus.io/", "github.com/prometheus/",
	"crypto/subtle.", "reflect.TypeOf", "reflect.DeepEqual", "bytes.Index", "bytes.HasPrefix", "bytes.HasSuffix", "bytes.Compare", "bytes.Contains",
	"bytes.Count", "bytes.LastIndex", "bytes.IndexByte", "encoding/hex.EncodeToString", "encoding/hex.DecodeString", "encoding/hex.EncodedLen", "encoding/hex.DecodedLen",
	"encoding/base64.", "os.Getenv", "github.com/cossacklabs/acra/logging.", "sort.SearchInts", "runtime.", "sync/atomic.Load",
	"github.com/golang/protobuf", "google.golang.org/grpc/status", "google.golang.org/grpc/codes",
}

func isEffectFree(name string) bool {
	n := fullNorm(name)
	for _, p := range effectFreePrefixes {
		if strings.HasPrefix(n, p) {
			return true
		}
	}
	return false
}

func isDeterministic(name string) bool {
	n := fullNorm(name)
	for _, p := range []string{"strings.", "strconv.", "unicode.", "unicode/utf8.", "math.", "math/bits.", "path.", "path/filepath.", "fmt.Sprintf", "fmt.Sprint"} {
		if strings.HasPrefix(n, p) {
			return true
		}
	}
	return false
}

// ---------- defers ----------

func (f *Frame) deferInstr(x *ssa.Defer) {
	c := x.Common()
	args := make([]Value, len(c.Args))
	for i, a := range c.Args {
		args[i] = f.val(a)
	}
	inLoop := false
	for _, li := range f.loops {
		if li.body[x.Block().Index] {
			inLoop = true
		}
	}
	if inLoop {
		if _, isClosure := c.Value.(*ssa.MakeClosure); isClosure || c.IsInvoke() {
			// a deferred closure or interface method registered per iteration: outside the subset
			f.e.unsupported = append(f.e.unsupported, "deferred closure inside a loop in "+f.fn.String())
		}
		f.e.note("defer inside a loop in " + f.fn.String() + ": at function exit the call runs an unknown number of times with unknown arguments (its effects are havocked)")
	}
	f.defers = append(f.defers, deferRec{guard: f.guard, call: c, args: args, fnv: f.val(c.Value), instr: x, inLoop: inLoop})
}

func (f *Frame) runDefers(x *ssa.RunDefers) {
	e := f.e
	f.inDefers++
	defer func() { f.inDefers-- }()
	for i := len(f.defers) - 1; i >= 0; i-- {
		d := f.defers[i]
		// execute under (current guard ∧ defer was registered); merge with the state that skips it
		saveG, saveS := f.guard, f.st.clone()
		dguard := d.guard
		args := d.args
		if d.inLoop {
			// The body of a loop is encoded once, for an arbitrary iteration: whether and how often the defer was
			// registered is not known at exit. Run it once under a free condition with free arguments (so that its
			// call-site obligations are checked for any registration), then havoc everything it may write.
			dguard = e.havoc(f.name("dloop"), SBool)
			args = make([]Value, len(d.call.Args))
			for k, a := range d.call.Args {
				args[k] = f.havocTyped(f.name(fmt.Sprintf("dlooparg%d", k)), a.Type())
			}
		}
		g := e.defineBool(f.name("dg"), and(f.guard, dguard))
		if g.isC && g.c == 0 {
			continue
		}
		f.guard = g
		var rt types.Type = d.call.Signature().Results()
		if d.call.Signature().Results().Len() == 1 {
			rt = d.call.Signature().Results().At(0).Type()
		}
		f.doCall(d.instr, d.call, args, rt, d.fnv)
		if d.inLoop {
			eff := newEffects()
			f.callEffects(d.call, eff, map[*ssa.Function]bool{}, 0)
			if eff.all {
				for k := range f.st.heaps {
					eff.names[k] = f.st.heaps[k].Sort
				}
			}
			var names []string
			for k := range eff.names {
				names = append(names, k)
			}
			sort.Strings(names)
			for _, k := range names {
				if strings.HasPrefix(k, "ghost_") {
					continue
				}
				if e.readonlyHeaps[k] {
					continue
				}
				f.st.heaps[k] = e.havoc(k+"@deferloop", eff.names[k])
			}
		}
		after := f.st
		afterG := f.guard
		skip := e.defineBool(f.name("ds"), and(saveG, not(dguard)))
		f.st = e.mergeStates(f.name("defer"), []Term{afterG, skip}, []*State{after, saveS})
		f.guard = e.defineBool(f.name("dj"), or(afterG, skip))
	}
}

// ---------- effects (for loop havoc) ----------

func (f *Frame) instrEffects(in ssa.Instruction, eff *effects, seen map[*ssa.Function]bool, depth int) {
	e := f.e
	switch x := in.(type) {
	case *ssa.Store:
		f.addrEffects(x.Addr, eff)
	case *ssa.MapUpdate:
		mt := x.Map.Type().Underlying().(*types.Map)
		pn, ps, vn, vs := e.mapHeaps(mt)
		eff.names[pn] = ps
		eff.names[vn] = vs
	case *ssa.Alloc, *ssa.MakeSlice, *ssa.MakeMap, *ssa.MakeChan, *ssa.MakeInterface:
		eff.alloc = true
		if a, ok := x.(*ssa.Alloc); ok {
			f.addrEffects(a, eff)
		}
		if ms, ok := x.(*ssa.MakeSlice); ok {
			hn, hs := e.elemHeapName(e.sortOf(ms.Type().Underlying().(*types.Slice).Elem()))
			eff.names[hn] = hs
		}
		if mm, ok := x.(*ssa.MakeMap); ok {
			pn, ps, _, _ := e.mapHeaps(mm.Type().Underlying().(*types.Map))
			eff.names[pn] = ps
		}
	case *ssa.Convert:
		if e.sortOf(x.Type()) == SSlice {
			eff.alloc = true
			hn, hs := e.elemHeapName(SBV8)
			eff.names[hn] = hs
		}
	case *ssa.Call:
		f.callEffects(x.Common(), eff, seen, depth)
	case *ssa.Defer:
		f.callEffects(x.Common(), eff, seen, depth)
	case *ssa.Go:
		f.callEffects(x.Common(), eff, seen, depth)
	case *ssa.Slice:
		if _, ok := x.X.Type().Underlying().(*types.Pointer); ok {
			eff.alloc = true
		}
	}
}

func (f *Frame) addrEffects(a ssa.Value, eff *effects) {
	e := f.e
	switch x := a.(type) {
	case *ssa.FieldAddr:
		// find root
		root := x
		for {
			if p, ok := root.X.(*ssa.FieldAddr); ok {
				root = p
				continue
			}
			break
		}
		if _, ok := root.X.(*ssa.IndexAddr); ok {
			f.addrEffects(root.X, eff)
			return
		}
		st := root.X.Type().Underlying().(*types.Pointer).Elem()
		loc := e.fieldLoc(st, root.Field, i64(0))
		eff.names[loc.heap] = loc.hsort
	case *ssa.IndexAddr:
		switch t := x.X.Type().Underlying().(type) {
		case *types.Slice:
			hn, hs := e.elemHeapName(e.sortOf(t.Elem()))
			eff.names[hn] = hs
		case *types.Pointer:
			if fa, ok := x.X.(*ssa.FieldAddr); ok {
				f.addrEffects(fa, eff)
				return
			}
			arr := t.Elem().Underlying().(*types.Array)
			hn, hs := e.elemHeapName(e.sortOf(arr.Elem()))
			eff.names[hn] = hs
		}
	case *ssa.Global:
		ad := e.globalAddr(x)
		eff.names[ad.heap] = ad.hsort
	default:
		// pointer value: cell heap or struct fields
		pt, ok := a.Type().Underlying().(*types.Pointer)
		if !ok {
			return
		}
		switch u := pt.Elem().Underlying().(type) {
		case *types.Struct:
			for i := 0; i < u.NumFields(); i++ {
				loc := e.fieldLoc(pt.Elem(), i, i64(0))
				eff.names[loc.heap] = loc.hsort
			}
		case *types.Array:
			hn, hs := e.elemHeapName(e.sortOf(u.Elem()))
			eff.names[hn] = hs
		default:
			hn, hs := e.cellHeapName(e.sortOf(pt.Elem()))
			eff.names[hn] = hs
		}
	}
}

func (f *Frame) typeEffects(t types.Type, eff *effects, depth int) {
	e := f.e
	switch u := t.Underlying().(type) {
	case *types.Slice:
		if depth > 0 && isByteSlice(t) {
			return
		}
		hn, hs := e.elemHeapName(e.sortOf(u.Elem()))
		eff.names[hn] = hs
		if depth < 1 {
			f.typeEffects(u.Elem(), eff, depth+1)
		}
	case *types.Pointer:
		switch eu := u.Elem().Underlying().(type) {
		case *types.Struct:
			for i := 0; i < eu.NumFields(); i++ {
				loc := e.fieldLoc(u.Elem(), i, i64(0))
				eff.names[loc.heap] = loc.hsort
				if depth < 1 {
					f.typeEffects(eu.Field(i).Type(), eff, depth+1)
				}
			}
		case *types.Array:
			hn, hs := e.elemHeapName(e.sortOf(eu.Elem()))
			eff.names[hn] = hs
		default:
			hn, hs := e.cellHeapName(e.sortOf(u.Elem()))
			eff.names[hn] = hs
		}
	case *types.Map:
		pn, ps, vn, vs := e.mapHeaps(u)
		eff.names[pn] = ps
		eff.names[vn] = vs
	}
}

func (f *Frame) callEffects(c *ssa.CallCommon, eff *effects, seen map[*ssa.Function]bool, depth int) {
	e := f.e
	name := calleeName(c)
	for _, pat := range e.tracked {
		base := pat
		if k := strings.LastIndex(pat, "#"); k >= 0 {
			base = pat[:k]
		}
		if matchPattern(base, name) {
			eff.names[ghostName("called", pat, -1)] = SBool
			eff.names[ghostName("itercalled", pat, -1)] = SBool
			for k, s := range e.ghostSorts {
				if strings.HasPrefix(k, ghostName("arg", pat, 0)[:len(ghostName("arg", pat, 0))-1]) || strings.HasPrefix(k, ghostName("ret", pat, 0)[:len(ghostName("ret", pat, 0))-1]) {
					eff.names[k] = s
				}
			}
		}
	}
	if b, ok := c.Value.(*ssa.Builtin); ok {
		switch b.Name() {
		case "append", "copy":
			if sl, ok := c.Args[0].Type().Underlying().(*types.Slice); ok {
				hn, hs := e.elemHeapName(e.sortOf(sl.Elem()))
				eff.names[hn] = hs
			}
			eff.alloc = true
		case "delete":
			if mt, ok := c.Args[0].Type().Underlying().(*types.Map); ok {
				pn, ps, _, _ := e.mapHeaps(mt)
				eff.names[pn] = ps
			}
		case "clear":
			eff.all = true
		}
		return
	}
	if ef, ok := externEffects[name]; ok {
		ef(f, c, eff)
		return
	}
	noinline := false
	if e.contract != nil {
		for _, pat := range e.contract.NoInline {
			if matchPattern(pat, name) {
				noinline = true
			}
		}
	}
	if ct := e.p.contracts.ByKey[name]; ct != nil {
		// (noinline only keeps a callee from being inlined; its contract, if any, still describes its effects)
		_ = noinline
		if ct.HasMod {
			for _, m := range ct.Modifies {
				if m == "*" {
					eff.all = true
					continue
				}
				if m == "bytes" {
					hn, hs := e.elemHeapName(SBV8)
					eff.names[hn] = hs
					continue
				}
				// map the modifies expression to the type of the named parameter (conservative: by type)
				root := m
				if k := strings.IndexAny(root, ".[ "); k >= 0 {
					root = root[:k]
				}
				idx := -1
				for i, pn := range ct.Params {
					if pn == root {
						idx = i
					}
				}
				if idx < 0 {
					eff.all = true
					continue
				}
				var t types.Type
				var argv ssa.Value
				if c.IsInvoke() {
					if idx == 0 {
						argv = c.Value
					} else {
						argv = c.Args[idx-1]
					}
				} else if idx < len(c.Args) {
					argv = c.Args[idx]
				}
				if argv != nil {
					t = argv.Type()
				}
				if t == nil {
					continue
				}
				// &s[i] (or a field inside that element): the pointee lives in the element heap of s
				inner := argv
				for {
					if fa, ok := inner.(*ssa.FieldAddr); ok {
						inner = fa.X
						continue
					}
					break
				}
				if ia, ok := inner.(*ssa.IndexAddr); ok && !strings.HasSuffix(m, "[*]") {
					if sl, isSlice := ia.X.Type().Underlying().(*types.Slice); isSlice {
						hn, hs := e.elemHeapName(e.sortOf(sl.Elem()))
						eff.names[hn] = hs
						continue
					}
				}
				// x.f / x.f[*] on a pointer-to-struct parameter: that field only
				form := strings.TrimSuffix(m, "[*]")
				if k := strings.Index(form, "."); k >= 0 && !strings.HasPrefix(form, "*") && !strings.ContainsAny(form[k+1:], ".[ ") {
					if pt, ok := t.Underlying().(*types.Pointer); ok {
						if st, ok := pt.Elem().Underlying().(*types.Struct); ok {
							done := false
							for i := 0; i < st.NumFields(); i++ {
								if st.Field(i).Name() != form[k+1:] {
									continue
								}
								if strings.HasSuffix(m, "[*]") {
									if fsl, ok := st.Field(i).Type().Underlying().(*types.Slice); ok {
										hn, hs := e.elemHeapName(e.sortOf(fsl.Elem()))
										eff.names[hn] = hs
										done = true
									}
								} else {
									loc := e.fieldLoc(pt.Elem(), i, i64(0))
									eff.names[loc.heap] = loc.hsort
									done = true
								}
							}
							if done {
								continue
							}
						}
					}
				}
				f.typeEffects(t, eff, 0)
			}
		} else {
			// no modifies clause: like an unknown call (see applyContract)
			for _, a := range c.Args {
				if !writesByteArgs(name) && isByteSlice(a.Type()) {
					continue
				}
				f.typeEffects(a.Type(), eff, 0)
			}
			if c.IsInvoke() {
				f.typeEffects(c.Value.Type(), eff, 0)
			}
		}
		eff.alloc = true
		return
	}
	if !c.IsInvoke() && !noinline {
		if fn := c.StaticCallee(); fn != nil && fn.Blocks != nil && depth < maxInlineDepth && pkgPathOf(fn) == pkgPathOf(f.topFrame().fn) {
			if seen[fn] {
				return
			}
			seen[fn] = true
			for _, b := range fn.Blocks {
				for _, in := range b.Instrs {
					f.instrEffects(in, eff, seen, depth+1)
				}
			}
			return
		}
	}
	eff.alloc = true
	if isEffectFree(name) {
		return
	}
	writes := writesByteArgs(name)
	for _, a := range c.Args {
		if mc, ok := a.(*ssa.MakeClosure); ok {
			// the callee may run the function literal: what it captures by reference may change
			for _, b := range mc.Bindings {
				f.typeEffects(b.Type(), eff, 0)
			}
			continue
		}
		if mi, ok := a.(*ssa.MakeInterface); ok {
			f.typeEffects(mi.X.Type(), eff, 0)
			continue
		}
		if !writes && isByteSlice(a.Type()) {
			continue
		}
		f.typeEffects(a.Type(), eff, 0)
	}
}

func pkgPathOf(fn *ssa.Function) string {
	if fn.Pkg != nil {
		return fn.Pkg.Pkg.Path()
	}
	if fn.Parent() != nil {
		return pkgPathOf(fn.Parent())
	}
	if fn.Object() != nil && fn.Object().Pkg() != nil {
		return fn.Object().Pkg().Path()
	}
	return ""
}
