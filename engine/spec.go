package main

// Contract files: /repo/<pkg>/zz_contracts_verif.go (//go:build verif, comment-only) and
// /verif/spec/prelude.acv. Every contract line starts with "//@".

import (
	"fmt"
	"go/ast"
	"go/parser"
	"go/token"
	"os"
	"regexp"
	"strconv"
	"strings"
)

type Clause struct {
	Name string // optional label
	Text string
	Expr ast.Expr
}

type LoopSpec struct {
	Invariants []Clause
	Decreases  *Clause
	Steps      []Clause // transition obligations: checked at every back edge, never assumed; prev(x) = value at loop head
	Exits      []Clause // exit obligations: checked on every edge that leaves the loop (normal exit, break, return from the body)
}

type SiteSpec struct {
	Pattern string // callee pattern
	Kind    string // "assert"
	Cl      Clause
	Props   []string
}

type Contract struct {
	File     string
	Line     int
	PkgPath  string
	Assumed  bool   // "assume func": external or interface method contract (trusted)
	Key      string // canonical key: "pkgpath.Func" | "(pkgpath.T).M" | "(*pkgpath.T).M"
	Header   string
	Params   []string // parameter names including receiver first (if any)
	Results  []string
	Props    []string
	Safety   bool
	Pure     bool
	Requires []Clause
	Ensures  []Clause
	Loops    map[int]*LoopSpec
	Sites    []SiteSpec
	Returns  []SiteSpec // "at return : assert E": checked at every return statement where E's variables are in scope
	Modifies []string
	HasMod   bool
	Track    []string // callee patterns whose call state is tracked as ghost (called/ret/argof)
	Opaque   []string
	NoInline []string // callee patterns never inlined (treated as unknown calls)
	Opts     map[string]string
	curProps []string
}

type SpecFunc struct {
	Name    string
	Params  []string
	PTypes  []string
	RType   string
	Def     *Clause // macro definition (optional)
	PkgPath string
}

type Lemma struct {
	Name    string
	PkgPath string
	Props   []string
	Vars    []string // "name type"
	Cl      Clause
	File    string
}

type Structural struct {
	Name    string
	PkgPath string
	Props   []string
	Kind    string
	Args    []string
	File    string
}

type ContractSet struct {
	ByKey       map[string]*Contract
	Order       []*Contract
	SpecFuncs   map[string]*SpecFunc
	Axioms      []Lemma
	Lemmas      []Lemma
	Structurals []Structural
	Errors      []string
}

func newContractSet() *ContractSet {
	return &ContractSet{ByKey: map[string]*Contract{}, SpecFuncs: map[string]*SpecFunc{}}
}

var ordRe = regexp.MustCompile(`#(\d+)`)
var implRe = regexp.MustCompile(`\$([A-Za-z_][A-Za-z0-9_]*)`)

// rewriteSpec turns the spec surface syntax into a parsable Go expression:
// "A ==> B" -> "!(A) || (B)", "A <==> B" -> "(A) == (B)", "$n" -> "ζn".
func rewriteSpec(s string) string {
	s = implRe.ReplaceAllString(s, "ζ$1")
	s = ordRe.ReplaceAllString(s, "ξ$1")
	return rewriteSeg(s)
}

func rewriteSeg(s string) string {
	// First rewrite the inside of every bracketed group.
	var sb strings.Builder
	i := 0
	for i < len(s) {
		c := s[i]
		if c == '"' || c == '\'' || c == '`' {
			j := i + 1
			for j < len(s) && s[j] != c {
				if s[j] == '\\' && c != '`' {
					j++
				}
				j++
			}
			if j >= len(s) {
				j = len(s) - 1
			}
			sb.WriteString(s[i : j+1])
			i = j + 1
			continue
		}
		if c == '(' || c == '[' {
			closeC := byte(')')
			if c == '[' {
				closeC = ']'
			}
			depth := 1
			j := i + 1
			for j < len(s) && depth > 0 {
				if s[j] == c {
					depth++
				} else if s[j] == closeC {
					depth--
				}
				if depth > 0 {
					j++
				}
			}
			inner := s[i+1 : min(j, len(s))]
			// split inner by top-level commas
			parts := splitCommas(inner)
			for k := range parts {
				parts[k] = rewriteSeg(parts[k])
			}
			sb.WriteByte(c)
			sb.WriteString(strings.Join(parts, ","))
			sb.WriteByte(closeC)
			i = j + 1
			continue
		}
		sb.WriteByte(c)
		i++
	}
	s = sb.String()
	if k := topIndex(s, "<==>"); k >= 0 {
		return "((" + rewriteSeg(s[:k]) + ") == (" + rewriteSeg(s[k+4:]) + "))"
	}
	if k := topIndex(s, "==>"); k >= 0 {
		return "(!(" + s[:k] + ") || (" + rewriteSeg(s[k+3:]) + "))"
	}
	return s
}

func splitCommas(s string) []string {
	var out []string
	depth, start := 0, 0
	inq := byte(0)
	for i := 0; i < len(s); i++ {
		c := s[i]
		if inq != 0 {
			if c == '\\' {
				i++
			} else if c == inq {
				inq = 0
			}
			continue
		}
		switch c {
		case '"', '\'', '`':
			inq = c
		case '(', '[', '{':
			depth++
		case ')', ']', '}':
			depth--
		case ',':
			if depth == 0 {
				out = append(out, s[start:i])
				start = i + 1
			}
		}
	}
	out = append(out, s[start:])
	return out
}

func topIndex(s, pat string) int {
	depth := 0
	inq := byte(0)
	for i := 0; i+len(pat) <= len(s); i++ {
		c := s[i]
		if inq != 0 {
			if c == '\\' {
				i++
			} else if c == inq {
				inq = 0
			}
			continue
		}
		switch c {
		case '"', '\'', '`':
			inq = c
		case '(', '[', '{':
			depth++
		case ')', ']', '}':
			depth--
		}
		if depth == 0 && strings.HasPrefix(s[i:], pat) {
			if pat == "==>" && i > 0 && s[i-1] == '<' {
				continue
			}
			return i
		}
	}
	return -1
}

func parseClause(text string) (Clause, error) {
	text = strings.TrimSpace(text)
	// strip trailing comment
	if k := strings.Index(text, " // "); k >= 0 {
		text = strings.TrimSpace(text[:k])
	}
	cl := Clause{Text: text}
	// optional label "name: expr" (label is an identifier followed by ':' and a space)
	if m := regexp.MustCompile(`^([A-Za-z_][A-Za-z0-9_\-]*):\s+(.*)$`).FindStringSubmatch(text); m != nil {
		cl.Name = m[1]
		text = m[2]
		cl.Text = text
	}
	e, err := parser.ParseExpr(rewriteSpec(text))
	if err != nil {
		return cl, fmt.Errorf("spec parse error in %q: %v", text, err)
	}
	cl.Expr = e
	return cl, nil
}

// parseHeader parses "func (b T) Name(a A, b B) (x X, err error)" and returns key pieces.
func parseHeader(pkgPath, hdr string) (key string, params, results []string, err error) {
	src := "package p\n" + hdr + "\n"
	fset := token.NewFileSet()
	f, perr := parser.ParseFile(fset, "hdr.go", src, 0)
	if perr != nil {
		return "", nil, nil, fmt.Errorf("bad contract header %q: %v", hdr, perr)
	}
	if len(f.Decls) != 1 {
		return "", nil, nil, fmt.Errorf("bad contract header %q", hdr)
	}
	fd, ok := f.Decls[0].(*ast.FuncDecl)
	if !ok {
		return "", nil, nil, fmt.Errorf("bad contract header %q", hdr)
	}
	name := fd.Name.Name
	if fd.Recv != nil && len(fd.Recv.List) == 1 {
		r := fd.Recv.List[0]
		rn := "recv"
		if len(r.Names) == 1 {
			rn = r.Names[0].Name
		}
		params = append(params, rn)
		ptr := false
		t := r.Type
		if st, ok := t.(*ast.StarExpr); ok {
			ptr = true
			t = st.X
		}
		tn := exprString(t)
		q := pkgPath + "." + tn
		if strings.Contains(tn, ".") { // explicitly qualified (assume contracts): full path given via alias map later
			q = tn
		}
		if ptr {
			key = "(*" + q + ")." + name
		} else {
			key = "(" + q + ")." + name
		}
	} else {
		key = pkgPath + "." + name
	}
	cnt := 0
	for _, p := range fd.Type.Params.List {
		if len(p.Names) == 0 {
			params = append(params, fmt.Sprintf("_p%d", cnt))
			cnt++
		}
		for _, n := range p.Names {
			params = append(params, n.Name)
			cnt++
		}
	}
	if fd.Type.Results != nil {
		rc := 0
		for _, p := range fd.Type.Results.List {
			if len(p.Names) == 0 {
				results = append(results, fmt.Sprintf("ret%d", rc))
				rc++
			}
			for _, n := range p.Names {
				results = append(results, n.Name)
				rc++
			}
		}
	}
	return key, params, results, nil
}

func exprString(e ast.Expr) string {
	switch x := e.(type) {
	case *ast.Ident:
		return x.Name
	case *ast.SelectorExpr:
		return exprString(x.X) + "." + x.Sel.Name
	case *ast.StarExpr:
		return "*" + exprString(x.X)
	case *ast.IndexExpr:
		return exprString(x.X)
	}
	return fmt.Sprintf("%T", e)
}

// parseContractText parses the //@ lines of one file.
// pkgPath is the import path of the package the file belongs to ("" for the prelude).
func (cs *ContractSet) parseContractText(file, pkgPath, text string) {
	lines := strings.Split(text, "\n")
	var cur *Contract
	var lastLoop int = -1
	var curPkg = pkgPath
	fail := func(ln int, format string, a ...interface{}) {
		cs.Errors = append(cs.Errors, fmt.Sprintf("%s:%d: %s", file, ln+1, fmt.Sprintf(format, a...)))
	}
	var lastKind string // for continuation lines
	_ = lastKind
	for ln, raw := range lines {
		line := strings.TrimSpace(raw)
		if !strings.HasPrefix(line, "//@") {
			continue
		}
		body := strings.TrimSpace(line[3:])
		if body == "" {
			continue
		}
		word, rest := splitWord(body)
		switch word {
		case "package":
			curPkg = strings.TrimSpace(rest)
			continue
		case "func", "assume":
			assumed := false
			hdr := body
			if word == "assume" {
				assumed = true
				hdr = strings.TrimSpace(rest)
			}
			key, params, results, err := parseHeader(curPkg, hdr)
			if err != nil {
				fail(ln, "%v", err)
				cur = nil
				continue
			}
			cur = &Contract{File: file, Line: ln + 1, PkgPath: curPkg, Assumed: assumed, Key: key, Header: hdr,
				Params: params, Results: results, Loops: map[int]*LoopSpec{}, Opts: map[string]string{}}
			if prev, dup := cs.ByKey[key]; dup {
				fail(ln, "duplicate contract for %s (first at %s:%d)", key, prev.File, prev.Line)
			}
			cs.ByKey[key] = cur
			cs.Order = append(cs.Order, cur)
			lastLoop = -1
			continue
		case "spec":
			// spec name(a T, b U) R [= expr]
			sf, err := parseSpecFunc(curPkg, rest)
			if err != nil {
				fail(ln, "%v", err)
				continue
			}
			cs.SpecFuncs[sf.Name] = sf
			cur = nil
			continue
		case "axiom", "lemma":
			// lemma name [props C01 C02] : forall x T, y U :: expr
			lm, err := parseLemma(curPkg, rest)
			if err != nil {
				fail(ln, "%v", err)
				continue
			}
			lm.File = file
			if word == "axiom" {
				cs.Axioms = append(cs.Axioms, lm)
			} else {
				cs.Lemmas = append(cs.Lemmas, lm)
			}
			cur = nil
			continue
		case "structural":
			// structural name props C02 : kind arg arg ...
			st, err := parseStructural(curPkg, rest)
			if err != nil {
				fail(ln, "%v", err)
				continue
			}
			st.File = file
			cs.Structurals = append(cs.Structurals, st)
			cur = nil
			continue
		}
		if cur == nil {
			fail(ln, "contract line outside of a func contract: %s", body)
			continue
		}
		switch word {
		case "props":
			cur.curProps = strings.Fields(rest)
			if len(cur.Props) == 0 {
				cur.Props = cur.curProps
			} else {
				for _, p := range cur.curProps {
					if !contains(cur.Props, p) {
						cur.Props = append(cur.Props, p)
					}
				}
			}
		case "safety":
			cur.Safety = true
		case "pure":
			cur.Pure = true
		case "requires":
			cl, err := parseClause(rest)
			if err != nil {
				fail(ln, "%v", err)
				continue
			}
			cur.Requires = append(cur.Requires, cl)
		case "ensures":
			cl, err := parseClause(rest)
			if err != nil {
				fail(ln, "%v", err)
				continue
			}
			cur.Ensures = append(cur.Ensures, cl)
		case "loop", "invariant", "decreases", "step", "exit":
			k := lastLoop
			w2, r2 := word, rest
			if word == "loop" {
				ks, r := splitWord(rest)
				n, err := strconv.Atoi(ks)
				if err != nil {
					fail(ln, "bad loop ordinal %q", ks)
					continue
				}
				k = n
				lastLoop = n
				w2, r2 = splitWord(r)
			}
			if k < 0 {
				fail(ln, "invariant without loop ordinal")
				continue
			}
			ls := cur.Loops[k]
			if ls == nil {
				ls = &LoopSpec{}
				cur.Loops[k] = ls
			}
			cl, err := parseClause(r2)
			if err != nil {
				fail(ln, "%v", err)
				continue
			}
			switch w2 {
			case "invariant":
				ls.Invariants = append(ls.Invariants, cl)
			case "decreases":
				c := cl
				ls.Decreases = &c
			case "step":
				ls.Steps = append(ls.Steps, cl)
			case "exit":
				ls.Exits = append(ls.Exits, cl)
			default:
				fail(ln, "unknown loop clause %q", w2)
			}
		case "at":
			// at call PATTERN : assert EXPR
			w2, r2 := splitWord(rest)
			if w2 == "return" {
				// at return : assert EXPR
				r2 = strings.TrimSpace(r2)
				if !strings.HasPrefix(r2, ": assert ") {
					fail(ln, "expected 'at return : assert EXPR'")
					continue
				}
				cl, err := parseClause(strings.TrimSpace(strings.TrimPrefix(r2, ": assert ")))
				if err != nil {
					fail(ln, "%v", err)
					continue
				}
				cur.Returns = append(cur.Returns, SiteSpec{Pattern: "return", Kind: "assert", Cl: cl, Props: cur.curProps})
				continue
			}
			if w2 != "call" {
				fail(ln, "expected 'at call' or 'at return'")
				continue
			}
			k := strings.Index(r2, " : ")
			if k < 0 {
				fail(ln, "expected ' : ' in at-call clause")
				continue
			}
			pat := strings.TrimSpace(r2[:k])
			kind, ex := splitWord(strings.TrimSpace(r2[k+3:]))
			if kind != "assert" {
				fail(ln, "unknown site clause kind %q", kind)
				continue
			}
			cl, err := parseClause(ex)
			if err != nil {
				fail(ln, "%v", err)
				continue
			}
			cur.Sites = append(cur.Sites, SiteSpec{Pattern: pat, Kind: kind, Cl: cl, Props: cur.curProps})
		case "nocall":
			// nocall PATTERN when EXPR  ==> at call PATTERN : assert !(EXPR)
			k := strings.Index(rest, " when ")
			pat, cond := rest, "true"
			if k >= 0 {
				pat, cond = strings.TrimSpace(rest[:k]), strings.TrimSpace(rest[k+6:])
			}
			cl, err := parseClause("!(" + cond + ")")
			if err != nil {
				fail(ln, "%v", err)
				continue
			}
			cl.Text = "nocall " + rest
			cur.Sites = append(cur.Sites, SiteSpec{Pattern: strings.TrimSpace(pat), Kind: "assert", Cl: cl, Props: cur.curProps})
		case "precedes":
			// precedes F G : every call of G happens after a completed call of F
			fs := strings.Fields(rest)
			if len(fs) != 2 {
				fail(ln, "precedes needs two patterns")
				continue
			}
			cl, err := parseClause("called(" + strconv.Quote(fs[0]) + ")")
			if err != nil {
				fail(ln, "%v", err)
				continue
			}
			cl.Text = "precedes " + rest
			cur.Track = append(cur.Track, fs[0])
			cur.Sites = append(cur.Sites, SiteSpec{Pattern: fs[1], Kind: "assert", Cl: cl, Props: cur.curProps})
		case "track":
			cur.Track = append(cur.Track, strings.Fields(rest)...)
		case "noinline":
			cur.NoInline = append(cur.NoInline, strings.Fields(rest)...)
		case "opaque":
			// opaque F...: calls of F are treated as unknown calls in this function (its contract is neither required
			// nor assumed, its effects are havoc) - a sound weakening, used where F's precondition is not provable here
			cur.Opaque = append(cur.Opaque, strings.Fields(rest)...)
			cur.NoInline = append(cur.NoInline, strings.Fields(rest)...)
		case "modifies":
			cur.HasMod = true
			for _, m := range splitCommas(rest) {
				m = strings.TrimSpace(m)
				if m != "" && m != "nothing" {
					cur.Modifies = append(cur.Modifies, m)
				}
			}
		case "opt":
			k, v := splitWord(rest)
			cur.Opts[k] = v
		default:
			fail(ln, "unknown contract keyword %q", word)
		}
	}
}

func splitWord(s string) (string, string) {
	s = strings.TrimSpace(s)
	k := strings.IndexAny(s, " \t")
	if k < 0 {
		return s, ""
	}
	return s[:k], strings.TrimSpace(s[k+1:])
}

func contains(xs []string, x string) bool {
	for _, y := range xs {
		if y == x {
			return true
		}
	}
	return false
}

func parseSpecFunc(pkg, rest string) (*SpecFunc, error) {
	def := ""
	if k := topIndex(rest, " = "); k >= 0 {
		def = strings.TrimSpace(rest[k+3:])
		rest = strings.TrimSpace(rest[:k])
	}
	src := "package p\nfunc " + rest + "\n"
	f, err := parser.ParseFile(token.NewFileSet(), "spec.go", src, 0)
	if err != nil || len(f.Decls) != 1 {
		return nil, fmt.Errorf("bad spec function %q: %v", rest, err)
	}
	fd := f.Decls[0].(*ast.FuncDecl)
	sf := &SpecFunc{Name: fd.Name.Name, PkgPath: pkg}
	for _, p := range fd.Type.Params.List {
		for _, n := range p.Names {
			sf.Params = append(sf.Params, n.Name)
			sf.PTypes = append(sf.PTypes, typeExprString(p.Type))
		}
	}
	if fd.Type.Results == nil || len(fd.Type.Results.List) != 1 {
		return nil, fmt.Errorf("spec function %q needs exactly one result", rest)
	}
	sf.RType = typeExprString(fd.Type.Results.List[0].Type)
	if def != "" {
		cl, err := parseClause(def)
		if err != nil {
			return nil, err
		}
		sf.Def = &cl
	}
	return sf, nil
}

func typeExprString(e ast.Expr) string {
	switch x := e.(type) {
	case *ast.Ident:
		return x.Name
	case *ast.ArrayType:
		if x.Len == nil {
			return "[]" + typeExprString(x.Elt)
		}
		return "[N]" + typeExprString(x.Elt)
	case *ast.StarExpr:
		return "*" + typeExprString(x.X)
	case *ast.SelectorExpr:
		return exprString(x)
	case *ast.InterfaceType:
		return "interface{}"
	}
	return fmt.Sprintf("%T", e)
}

func parseLemma(pkg, rest string) (Lemma, error) {
	lm := Lemma{PkgPath: pkg}
	k := strings.Index(rest, " : ")
	if k < 0 {
		return lm, fmt.Errorf("lemma needs 'name [props ..] : [forall vars ::] expr'")
	}
	head := strings.Fields(rest[:k])
	body := strings.TrimSpace(rest[k+3:])
	if len(head) == 0 {
		return lm, fmt.Errorf("lemma needs a name")
	}
	lm.Name = head[0]
	if len(head) > 2 && head[1] == "props" {
		lm.Props = head[2:]
	}
	if strings.HasPrefix(body, "forall ") {
		j := strings.Index(body, "::")
		if j < 0 {
			return lm, fmt.Errorf("lemma quantifier needs '::'")
		}
		for _, v := range strings.Split(body[7:j], ",") {
			v = strings.TrimSpace(v)
			if v != "" {
				lm.Vars = append(lm.Vars, v)
			}
		}
		body = strings.TrimSpace(body[j+2:])
	}
	cl, err := parseClause(body)
	if err != nil {
		return lm, err
	}
	lm.Cl = cl
	return lm, nil
}

func parseStructural(pkg, rest string) (Structural, error) {
	st := Structural{PkgPath: pkg}
	k := strings.Index(rest, " : ")
	if k < 0 {
		return st, fmt.Errorf("structural needs 'name [props ..] : kind args'")
	}
	head := strings.Fields(rest[:k])
	if len(head) == 0 {
		return st, fmt.Errorf("structural needs a name")
	}
	st.Name = head[0]
	if len(head) > 2 && head[1] == "props" {
		st.Props = head[2:]
	}
	fs := strings.Fields(rest[k+3:])
	if len(fs) == 0 {
		return st, fmt.Errorf("structural needs a kind")
	}
	st.Kind = fs[0]
	st.Args = fs[1:]
	return st, nil
}

func (cs *ContractSet) loadFile(path, pkgPath string) error {
	b, err := os.ReadFile(path)
	if err != nil {
		return err
	}
	cs.parseContractText(path, pkgPath, string(b))
	return nil
}
