package main

// Loop cutting: user invariants (obligations) + automatically guessed candidate invariants
// that are checked Houdini-style (never trusted).

import (
	"go/ast"
	"fmt"
	"go/token"
	"go/types"
	"sort"
	"strings"

	"golang.org/x/tools/go/ssa"
)

type candFn func(phis map[*ssa.Phi]Value, st *State) (Term, bool)

type loopCand struct {
	c  *Cand
	fn candFn
}

type loopRT struct {
	li      *loopInfo
	cands   []loopCand
	entryPh map[*ssa.Phi]Value
	headPh  map[*ssa.Phi]Value
	entrySt *State
	headSt  *State
	invs    []Clause
	steps   []Clause
	exits   []Clause
	exitGoals map[int][]Term // per exit clause: (edge condition => clause) for every edge that leaves the loop
	decr    *Clause
	decrHead Term
	props   []string
	quantCand bool
	targeted map[string][]Term // heaps forgotten key-wise at the loop head (no frame candidates needed)
}

func (f *Frame) loopRT(h int) *loopRT {
	if f.e.loopRTs == nil {
		f.e.loopRTs = map[*Frame]map[int]*loopRT{}
	}
	m := f.e.loopRTs[f]
	if m == nil {
		m = map[int]*loopRT{}
		f.e.loopRTs[f] = m
	}
	return m[h]
}

// heapEffects of a loop body: set of state-component names that may be written; all=true if unknown.
type effects struct {
	names map[string]Sort
	all   bool
	alloc bool
}

func newEffects() *effects { return &effects{names: map[string]Sort{}} }

func (f *Frame) loopHeader(li *loopInfo) {
	e := f.e
	rt := &loopRT{li: li, entryPh: map[*ssa.Phi]Value{}, headPh: map[*ssa.Phi]Value{}}
	f.loopRT(li.header)
	f.e.loopRTs[f][li.header] = rt
	for _, phi := range li.phis {
		rt.entryPh[phi] = f.vals[phi]
	}
	rt.entrySt = f.st.clone()
	if f.parent == nil && e.contract != nil {
		if ls := e.contract.Loops[li.ordinal]; ls != nil {
			rt.invs = ls.Invariants
			rt.decr = ls.Decreases
			rt.steps = ls.Steps
			rt.exits = ls.Exits
		}
		rt.props = e.contract.Props
	}
	top := shortFuncName(f.topFrame().fn)
	// 1. user invariants on entry
	for i, inv := range rt.invs {
		env := f.loopEnv(li, rt.entryPh, rt.entrySt)
		t, err := env.evalBool(inv.Expr)
		if err != nil {
			e.specError(fmt.Sprintf("%s loop %d invariant %q: %v", top, li.ordinal, inv.Text, err))
			continue
		}
		o := e.addObl("invariant-entry", fmt.Sprintf("%s#invariant-entry:loop%d:%s", top, li.ordinal, clauseLabel(inv, i)), f.guard, t, rt.props)
		o.Text = inv.Text
	}
	// 2. effects
	eff := newEffects()
	seen := map[*ssa.Function]bool{}
	for bi := range li.body {
		for _, in := range f.fn.Blocks[bi].Instrs {
			f.instrEffects(in, eff, seen, 0)
		}
	}
	// 2a. heaps whose writes in the body all go to keys that are fixed while the loop runs: forget those keys only
	targeted := map[string][]Term{}
	if !eff.all {
		for k := range eff.names {
			if ks, ok := f.loopWriteTargets(li, k, eff); ok {
				targeted[k] = ks
			}
		}
	}
	rt.targeted = targeted
	// 3. candidates
	f.genCandidates(li, rt, eff)
	for _, lc := range rt.cands {
		if t, ok := lc.fn(rt.entryPh, rt.entrySt); ok {
			o := &Obligation{Name: lc.c.Desc + "#entry", Kind: "cand-entry", Goal: implies(f.guard, t), CmdIdx: len(e.cmds)}
			lc.c.EntryObl = append(lc.c.EntryObl, o)
		} else {
			lc.c.Dropped = true
		}
	}
	// 4. havoc
	for _, phi := range li.phis {
		hv := f.havocTyped(phi.Name()+"_h", phi.Type())
		if old := rt.entryPh[phi]; old.Clo != nil || old.Fn != nil {
			hv = old
		}
		f.vals[phi] = hv
		rt.headPh[phi] = hv
	}
	if eff.all {
		// total havoc: every known component
		var names []string
		for k := range f.st.heaps {
			names = append(names, k)
		}
		sort.Strings(names)
		for _, k := range names {
			eff.names[k] = f.st.heaps[k].Sort
		}
		e.note("loop with unknown effects: all touched state havocked at loop head")
	}
	var names []string
	for k := range eff.names {
		names = append(names, k)
	}
	sort.Strings(names)
	for _, k := range names {
		if strings.HasPrefix(k, "ghost_itercalled_") {
			f.st.heaps[k] = tFalse // "called in the current iteration of the innermost enclosing loop"
			continue
		}
		if e.readonlyHeaps[k] {
			// a field that is only written by its constructors on fresh objects: objects that exist at the loop head
			// keep their value (objects allocated inside the loop are simply unknown afterwards, which is sound)
			continue
		}
		if ks, ok := targeted[k]; ok {
			h := e.heap(f.st, k, eff.names[k])
			for _, key := range ks {
				h = store(h, key, e.havoc(k+"@loopkey", arrayElem(eff.names[k])))
			}
			if len(ks) > 0 {
				f.st.heaps[k] = e.define(k+"@loop", h)
			}
			continue
		}
		f.st.heaps[k] = e.havoc(k+"@loop", eff.names[k])
	}
	if eff.alloc || eff.all {
		e.bumpWm(f.st)
	}
	rt.headSt = f.st.clone()
	// 5. assume invariants at head
	for _, inv := range rt.invs {
		env := f.loopEnv(li, rt.headPh, rt.headSt)
		t, err := env.evalBool(inv.Expr)
		if err != nil {
			continue
		}
		e.assume(implies(f.guard, t))
	}
	for _, lc := range rt.cands {
		if lc.c.Dropped {
			continue
		}
		if t, ok := lc.fn(rt.headPh, rt.headSt); ok {
			e.assume(implies(sym(lc.c.Flag, SBool), implies(f.guard, t)))
		} else {
			lc.c.Dropped = true
		}
	}
	if rt.decr != nil {
		env := f.loopEnv(li, rt.headPh, rt.headSt)
		v, err := env.eval(rt.decr.Expr)
		if err != nil {
			e.specError(fmt.Sprintf("%s loop %d decreases: %v", top, li.ordinal, err))
			rt.decr = nil
		} else {
			rt.decrHead = e.define("variant", conv64(v))
		}
	}
}

func conv64(v SpecVal) Term {
	if v.T.Sort.bvWidth() > 0 {
		signed := true
		if v.Typ != nil {
			signed = isSigned(v.Typ)
		}
		return conv(v.T, 64, signed)
	}
	return v.T
}

func clauseLabel(c Clause, i int) string {
	if c.Name != "" {
		return c.Name
	}
	return c.Text
}

func (f *Frame) backEdge(from, to *ssa.BasicBlock, cond Term) {
	e := f.e
	rt := f.loopRT(to.Index)
	if rt == nil {
		return
	}
	li := rt.li
	// values flowing along this edge
	back := map[*ssa.Phi]Value{}
	for _, phi := range li.phis {
		for ei, p := range to.Preds {
			if p == from {
				v := f.val(phi.Edges[ei])
				if v.T.S == "" {
					v.T = e.valTerm(v, phi.Type())
				}
				back[phi] = v
			}
		}
	}
	top := shortFuncName(f.topFrame().fn)
	tag := ""
	nback := 0
	for be := range f.back {
		if be[1] == to.Index {
			nback++
		}
	}
	if nback > 1 {
		tag = fmt.Sprintf(":from%d", from.Index)
	}
	for i, inv := range rt.invs {
		env := f.loopEnv(li, back, f.st)
		t, err := env.evalBool(inv.Expr)
		if err != nil {
			e.specError(fmt.Sprintf("%s loop %d invariant %q at back edge: %v", top, li.ordinal, inv.Text, err))
			continue
		}
		o := e.addObl("invariant-preserved", fmt.Sprintf("%s#invariant-preserved:loop%d:%s%s", top, li.ordinal, clauseLabel(inv, i), tag), cond, t, rt.props)
		o.Text = inv.Text
	}
	if f.parent == nil && (len(rt.steps) > 0 || len(rt.invs) > 0) {
		// vacuity check: the transition obligations of this back edge are guarded by its reachability
		cv := &Obligation{Name: fmt.Sprintf("%s#cover:loop%d-back-edge:from%d", top, li.ordinal, from.Index), Kind: "cover", Goal: cond, CmdIdx: len(e.cmds), Cover: true, Props: rt.props}
		e.covers = append(e.covers, cv)
	}
	for i, stp := range rt.steps {
		// transition obligation: locals visible at the back edge's source block, prev(x) = head value
		env := f.loopEnv(li, back, f.st)
		for name, v := range f.localsDominating(from) {
			f.bindLocal(env, name, v, f.st, true)
		}
		for name, v := range f.localsIn(from) {
			f.bindLocal(env, name, v, f.st, true)
		}
		env.prev = map[string]SpecVal{}
		for _, phi := range li.phis {
			if phi.Comment != "" {
				if hv, ok := rt.headPh[phi]; ok {
					env.prev[phi.Comment] = SpecVal{T: hv.T, Typ: phi.Type(), V: hv}
				}
			}
		}
		env.fallbackPrev = func(name string) (SpecVal, bool) {
			cand := f.renamedLoopVar(li, rt.headPh)
			if cand == nil {
				return SpecVal{}, false
			}
			hv := rt.headPh[cand]
			return SpecVal{T: hv.T, Typ: cand.Type(), V: hv}, true
		}
		t, err := env.evalBool(stp.Expr)
		if err != nil {
			e.specError(fmt.Sprintf("%s loop %d step %q: %v", top, li.ordinal, stp.Text, err))
			continue
		}
		o := e.addObl("loop-step", fmt.Sprintf("%s#loop-step:loop%d:%s%s", top, li.ordinal, clauseLabel(stp, i), tag), cond, t, rt.props)
		o.Text = stp.Text
	}
	if rt.decr != nil {
		env := f.loopEnv(li, back, f.st)
		v, err := env.eval(rt.decr.Expr)
		if err == nil {
			vb := conv64(v)
			e.addObl("variant", fmt.Sprintf("%s#variant:loop%d%s", top, li.ordinal, tag), cond, and(sle(i64(0), rt.decrHead), slt(vb, rt.decrHead)), rt.props)
		}
	}
	for _, lc := range rt.cands {
		if lc.c.Dropped {
			continue
		}
		if t, ok := lc.fn(back, f.st); ok {
			o := &Obligation{Name: lc.c.Desc + "#preserved", Kind: "cand-preserved", Goal: implies(cond, t), CmdIdx: len(e.cmds)}
			lc.c.PresObl = append(lc.c.PresObl, o)
		} else {
			lc.c.Dropped = true
		}
	}
}

// exitEdge: `exit` clauses of every loop that the edge from -> to leaves. Loop-carried variables (and $n) have the
// values of the iteration that is being left (for the normal exit of a range loop $n == len); locals visible in the
// source block are in scope; itercalled()/ret() refer to the calls of that iteration.
func (f *Frame) exitEdge(from, to *ssa.BasicBlock, cond Term) {
	e := f.e
	if f.parent != nil || e.contract == nil {
		return
	}
	for h, li := range f.loops {
		if !li.body[from.Index] || li.body[to.Index] {
			continue
		}
		rt := f.loopRT(h)
		if rt == nil || len(rt.exits) == 0 {
			continue
		}
		top := shortFuncName(f.topFrame().fn)
		for i, ex := range rt.exits {
			env := f.loopEnv(li, rt.headPh, f.st)
			for name, v := range f.localsDominating(from) {
				f.bindLocal(env, name, v, f.st, true)
			}
			for name, v := range f.localsIn(from) {
				f.bindLocal(env, name, v, f.st, true)
			}
			t, err := env.evalBool(ex.Expr)
			if err != nil {
				e.specError(fmt.Sprintf("%s loop %d exit %q: %v", top, li.ordinal, ex.Text, err))
				continue
			}
			if rt.exitGoals == nil {
				rt.exitGoals = map[int][]Term{}
			}
			rt.exitGoals[i] = append(rt.exitGoals[i], implies(cond, t))
		}
	}
}

// exitObligations: one obligation per `exit` clause (conjunction over all edges that leave the loop, so that the
// obligation's name does not depend on block numbering); a clause whose loop has no exit edge is a stale contract.
func (f *Frame) exitObligations() {
	e := f.e
	top := shortFuncName(f.fn)
	var hs []int
	for h := range f.loops {
		hs = append(hs, h)
	}
	sort.Ints(hs)
	for _, h := range hs {
		rt := f.loopRT(h)
		if rt == nil {
			continue
		}
		for i, ex := range rt.exits {
			gs := rt.exitGoals[i]
			if len(gs) == 0 {
				e.specError(fmt.Sprintf("%s loop %d exit %q: the loop has no reachable exit edge", top, rt.li.ordinal, ex.Text))
				continue
			}
			o := e.addObl("loop-exit", fmt.Sprintf("%s#loop-exit:loop%d:%s", top, rt.li.ordinal, clauseLabel(ex, i)), tTrue, and(gs...), rt.props)
			o.Text = ex.Text
		}
	}
}

func (f *Frame) newCand(rt *loopRT, desc string, fn candFn) {
	e := f.e
	flag := fmt.Sprintf("cand!%d", len(e.cands))
	e.pre(fmt.Sprintf("(declare-const %s Bool)", flag))
	c := &Cand{Flag: flag, Desc: fmt.Sprintf("%s%s/loop%d/%s", f.prefix, shortFuncName(f.fn), rt.li.ordinal, desc)}
	e.cands = append(e.cands, c)
	rt.cands = append(rt.cands, loopCand{c: c, fn: fn})
}

// pureTerm evaluates an SSA value as a function of the loop-head phis and loop-invariant values.
func (f *Frame) pureTerm(v ssa.Value, li *loopInfo, phis map[*ssa.Phi]Value, st *State, depth int) (Term, bool) {
	if depth > 6 {
		return Term{}, false
	}
	switch x := v.(type) {
	case *ssa.Const:
		return f.constVal(x).T, true
	case *ssa.Phi:
		if pv, ok := phis[x]; ok {
			return pv.T, pv.T.S != ""
		}
	case *ssa.Parameter, *ssa.FreeVar:
		pv := f.vals[v]
		return pv.T, pv.T.S != ""
	}
	if in, ok := v.(ssa.Instruction); ok {
		if in.Block() != nil && !li.body[in.Block().Index] {
			if pv, ok := f.vals[v]; ok && pv.T.S != "" {
				return pv.T, true
			}
			return Term{}, false
		}
		switch x := v.(type) {
		case *ssa.BinOp:
			if x.Op == token.ADD || x.Op == token.SUB {
				a, ok1 := f.pureTerm(x.X, li, phis, st, depth+1)
				b, ok2 := f.pureTerm(x.Y, li, phis, st, depth+1)
				if ok1 && ok2 && a.Sort == b.Sort && a.Sort.bvWidth() > 0 {
					if x.Op == token.ADD {
						return bvAdd(a, b), true
					}
					return bvSub(a, b), true
				}
			}
		case *ssa.Convert:
			a, ok := f.pureTerm(x.X, li, phis, st, depth+1)
			if ok && a.Sort.bvWidth() > 0 && isInteger(x.Type()) {
				return conv(a, f.e.sortOf(x.Type()).bvWidth(), isSigned(x.X.Type())), true
			}
		case *ssa.Call:
			if b, ok := x.Call.Value.(*ssa.Builtin); ok && b.Name() == "len" {
				a, ok := f.pureTerm(x.Call.Args[0], li, phis, st, depth+1)
				if ok && a.Sort == SSlice {
					return sLen(a), true
				}
				if ok && a.Sort == SStr {
					return app(SBV64, "strlen", a), true
				}
			}
		}
	}
	return Term{}, false
}

func (f *Frame) genCandidates(li *loopInfo, rt *loopRT, eff *effects) {
	e := f.e
	// (a) monotonicity of integer phis relative to their entry value
	for _, phi := range li.phis {
		phi := phi
		if !isInteger(phi.Type()) {
			continue
		}
		entry := rt.entryPh[phi].T
		if entry.S == "" {
			continue
		}
		signed := isSigned(phi.Type())
		le, ge := "bvule", "bvuge"
		if signed {
			le, ge = "bvsle", "bvsge"
		}
		nm := phi.Comment
		if nm == "" {
			nm = phi.Name()
		}
		f.newCand(rt, nm+">=entry", func(ph map[*ssa.Phi]Value, st *State) (Term, bool) {
			return bvCmp(ge, ph[phi].T, entry), ph[phi].T.S != ""
		})
		f.newCand(rt, nm+"<=entry", func(ph map[*ssa.Phi]Value, st *State) (Term, bool) {
			return bvCmp(le, ph[phi].T, entry), ph[phi].T.S != ""
		})
	}
	// (b) bounds from comparisons inside the loop that involve loop-carried values
	n := 0
	for bi := range li.body {
		for _, in := range f.fn.Blocks[bi].Instrs {
			bo, ok := in.(*ssa.BinOp)
			if !ok || !isInteger(bo.X.Type()) {
				continue
			}
			switch bo.Op {
			case token.LSS, token.LEQ, token.GTR, token.GEQ, token.NEQ:
			default:
				continue
			}
			if bi != li.header && n > 8 {
				continue
			}
			// must be computable from head phis
			if _, ok := f.pureTerm(bo.X, li, rt.entryPh, rt.entrySt, 0); !ok {
				continue
			}
			if _, ok := f.pureTerm(bo.Y, li, rt.entryPh, rt.entrySt, 0); !ok {
				continue
			}
			_ = bo
			signed := isSigned(bo.X.Type())
			// left atoms: X itself and, when X = p + const, p
			lefts := []ssa.Value{bo.X}
			if ad, ok := bo.X.(*ssa.BinOp); ok && (ad.Op == token.ADD || ad.Op == token.SUB) {
				if _, isC := ad.Y.(*ssa.Const); isC {
					lefts = append(lefts, ad.X)
				}
			}
			mk := func(op string, lx ssa.Value) candFn {
				return func(ph map[*ssa.Phi]Value, st *State) (Term, bool) {
					a, ok1 := f.pureTerm(lx, li, ph, st, 0)
					b, ok2 := f.pureTerm(bo.Y, li, ph, st, 0)
					if !ok1 || !ok2 || a.Sort != b.Sort {
						return Term{}, false
					}
					return bvCmp(op, a, b), true
				}
			}
			le, ge, lt, gt := "bvule", "bvuge", "bvult", "bvugt"
			if signed {
				le, ge, lt, gt = "bvsle", "bvsge", "bvslt", "bvsgt"
			}
			n++
			for li2, lx := range lefts {
				desc := fmt.Sprintf("cmp%d.%d", n, li2)
				switch bo.Op {
				case token.LSS, token.LEQ, token.NEQ:
					f.newCand(rt, desc+"<=", mk(le, lx))
					f.newCand(rt, desc+"<", mk(lt, lx))
				}
				switch bo.Op {
				case token.GTR, token.GEQ, token.NEQ:
					f.newCand(rt, desc+">=", mk(ge, lx))
					f.newCand(rt, desc+">", mk(gt, lx))
				}
			}
		}
	}
	// (d) whole-heap frame: every region existing at loop entry that is not written through an outside slice
	//     (or an embedded array of an outside object) keeps its contents
	for hn, hs := range eff.names {
		if !strings.HasPrefix(hn, "HE_") {
			continue
		}
		if _, t := rt.targeted[hn]; t {
			continue
		}
		hn, hs := hn, hs
		regs, ok := f.writtenRegions(li, hn)
		if !ok {
			continue
		}
		entryH := e.heap(rt.entrySt, hn, hs)
		entryWm := rt.entrySt.wm
		f.newCand(rt, "frame-all:"+hn, func(ph map[*ssa.Phi]Value, st *State) (Term, bool) {
			q := e.qvar()
			qv := sym(q, SRef)
			alts := []Term{ult(entryWm, qv)}
			for _, r := range regs {
				alts = append(alts, eq(qv, r))
			}
			alts = append(alts, eq(sel(e.heap(st, hn, hs), qv), sel(entryH, qv)))
			return Term{S: fmt.Sprintf("(forall ((%s (_ BitVec 64))) %s)", q, or(alts...).S), Sort: SBool}, true
		})
		rt.quantCand = true
		e.quantCands = true
	}
	// (e) function-entry frame: when the function under contract has a modifies clause, everything that existed at
	//     function entry may still hold its entry value at the loop head (true whenever the body only writes memory
	//     allocated by this function); needed to discharge the frame obligations across a whole-heap havoc
	if f.parent == nil && e.contract != nil && e.contract.HasMod && f.entry != nil {
		for hn, hs := range eff.names {
			if _, t := rt.targeted[hn]; t {
				continue
			}
			if !(strings.HasPrefix(hn, "HE_") || strings.HasPrefix(hn, "HF_") || strings.HasPrefix(hn, "HP_")) {
				continue
			}
			hn, hs := hn, hs
			entryH := e.heap(f.entry, hn, hs)
			wm0 := f.entry.wm
			f.newCand(rt, "entry-frame:"+hn, func(ph map[*ssa.Phi]Value, st *State) (Term, bool) {
				q := e.qvar()
				qv := sym(q, SRef)
				return Term{S: fmt.Sprintf("(forall ((%s (_ BitVec 64))) %s)", q, or(ult(wm0, qv), eq(sel(e.heap(st, hn, hs), qv), sel(entryH, qv))).S), Sort: SBool}, true
			})
			rt.quantCand = true
			e.quantCands = true
		}
	}
	// (c) frame candidates: regions of slices defined outside the loop stay unchanged
	var hnames []string
	for k := range eff.names {
		hnames = append(hnames, k)
	}
	sort.Strings(hnames)
	outside := f.outsideValues(li)
	for _, hn := range hnames {
		hs := eff.names[hn]
		hn := hn
		if _, t := rt.targeted[hn]; t {
			continue
		}
		switch {
		case strings.HasPrefix(hn, "HE_"):
			for _, ov := range outside {
				ov := ov
				var reg Term
				switch t := ov.Type().Underlying().(type) {
				case *types.Slice:
					if n2, _ := e.elemHeapName(e.sortOf(t.Elem())); n2 != hn {
						continue
					}
					vt := f.vals[ov].T
					if vt.S == "" {
						continue
					}
					reg = sReg(vt)
				default:
					continue
				}
				entryH := e.heap(rt.entrySt, hn, hs)
				f.newCand(rt, "frame:"+hn+":"+ov.Name(), func(ph map[*ssa.Phi]Value, st *State) (Term, bool) {
					return eq(sel(e.heap(st, hn, hs), reg), sel(entryH, reg)), true
				})
			}
		case strings.HasPrefix(hn, "HF_"), strings.HasPrefix(hn, "HP_"):
			// whole heap unchanged for objects existing at loop entry is too strong in general;
			// candidate: objects referenced by outside pointer values keep their field
			for _, ov := range outside {
				ov := ov
				if _, ok := ov.Type().Underlying().(*types.Pointer); !ok {
					continue
				}
				vt := f.vals[ov]
				if vt.T.S == "" || vt.Addr != nil {
					continue
				}
				if !f.heapMatchesPtr(hn, ov.Type()) {
					continue
				}
				entryH := e.heap(rt.entrySt, hn, hs)
				obj := vt.T
				f.newCand(rt, "frame:"+hn+":"+ov.Name(), func(ph map[*ssa.Phi]Value, st *State) (Term, bool) {
					return eq(sel(e.heap(st, hn, hs), obj), sel(entryH, obj)), true
				})
			}
		}
	}
}

// writtenRegions: regions written in the loop body through element stores / copy / append whose target slice is
// defined outside the loop. ok=false when some write goes through a loop-carried or unknown slice.
func (f *Frame) writtenRegions(li *loopInfo, hn string) ([]Term, bool) {
	e := f.e
	var regs []Term
	seen := map[string]bool{}
	add := func(v ssa.Value) bool {
		// peel slicing: s[a:b] writes into the region of s
		for {
			if sl, ok := v.(*ssa.Slice); ok {
				if _, isSlice := sl.X.Type().Underlying().(*types.Slice); isSlice {
					v = sl.X
					continue
				}
			}
			break
		}
		if in, ok := v.(ssa.Instruction); ok && in.Block() != nil && li.body[in.Block().Index] {
			return false
		}
		if _, isPhi := v.(*ssa.Phi); isPhi {
			return false
		}
		pv, ok := f.vals[v]
		if !ok || pv.T.S == "" || pv.T.Sort != SSlice {
			return false
		}
		r := sReg(pv.T)
		if !seen[r.S] {
			seen[r.S] = true
			regs = append(regs, r)
		}
		return true
	}
	for bi := range li.body {
		for _, in := range f.fn.Blocks[bi].Instrs {
			switch x := in.(type) {
			case *ssa.Store:
				ia, ok := x.Addr.(*ssa.IndexAddr)
				if !ok {
					continue
				}
				st, ok := ia.X.Type().Underlying().(*types.Slice)
				if !ok {
					if n, _ := e.elemHeapName(e.sortOf(x.Val.Type())); n == hn {
						return nil, false
					}
					continue
				}
				if n, _ := e.elemHeapName(e.sortOf(st.Elem())); n != hn {
					continue
				}
				if !add(ia.X) {
					return nil, false
				}
			case *ssa.Call:
				c := x.Common()
				if b, ok := c.Value.(*ssa.Builtin); ok && (b.Name() == "copy" || b.Name() == "append") {
					st, ok := c.Args[0].Type().Underlying().(*types.Slice)
					if !ok {
						continue
					}
					if n, _ := e.elemHeapName(e.sortOf(st.Elem())); n != hn {
						continue
					}
					if b.Name() == "append" {
						return nil, false
					}
					if !add(c.Args[0]) {
						return nil, false
					}
					continue
				}
				eff := newEffects()
				f.callEffects(c, eff, map[*ssa.Function]bool{}, 0)
				if _, touched := eff.names[hn]; touched || eff.all {
					return nil, false
				}
			case *ssa.Alloc, *ssa.MakeSlice, *ssa.Convert, *ssa.Defer, *ssa.Go:
				// allocations create regions above the entry watermark: fine
				if _, isDefer := in.(*ssa.Defer); isDefer {
					return nil, false
				}
			}
		}
	}
	return regs, true
}

func (f *Frame) heapMatchesPtr(hn string, pt types.Type) bool {
	e := f.e
	elem := pt.Underlying().(*types.Pointer).Elem()
	if st, ok := elem.Underlying().(*types.Struct); ok {
		for i := 0; i < st.NumFields(); i++ {
			if n, _ := e.fieldHeapName(elem, i); n == hn {
				return true
			}
		}
		return false
	}
	if _, ok := elem.Underlying().(*types.Array); ok {
		return false
	}
	n, _ := e.cellHeapName(e.sortOf(elem))
	return n == hn
}

// outsideValues: parameters and values defined outside the loop that are used inside it.
func (f *Frame) outsideValues(li *loopInfo) []ssa.Value {
	seen := map[ssa.Value]bool{}
	var out []ssa.Value
	add := func(v ssa.Value) {
		if v == nil || seen[v] {
			return
		}
		switch x := v.(type) {
		case *ssa.Parameter, *ssa.FreeVar:
		case ssa.Instruction:
			if x.Block() == nil || li.body[x.Block().Index] {
				return
			}
		default:
			return
		}
		if _, ok := f.vals[v]; !ok {
			return
		}
		seen[v] = true
		out = append(out, v)
	}
	for _, p := range f.fn.Params {
		add(p)
	}
	var bis []int
	for bi := range li.body {
		bis = append(bis, bi)
	}
	sort.Ints(bis)
	for _, bi := range bis {
		for _, in := range f.fn.Blocks[bi].Instrs {
			for _, op := range in.Operands(nil) {
				if *op != nil {
					add(*op)
				}
			}
		}
	}
	return out
}

// loopEnv builds the spec environment at a loop head / back edge.
func (f *Frame) loopEnv(li *loopInfo, phis map[*ssa.Phi]Value, st *State) *SpecEnv {
	env := f.baseEnv(st)
	// locals visible by source name: values dominating the header
	hb := f.fn.Blocks[li.header]
	for name, v := range f.localsDominating(hb) {
		f.bindLocal(env, name, v, st, false)
	}
	for _, phi := range li.phis {
		pv, ok := phis[phi]
		if !ok {
			continue
		}
		nm := phi.Comment
		if nm == "" {
			continue
		}
		if nm == "rangeindex" {
			env.vars["ζn"] = SpecVal{T: bvAdd(pv.T, i64(1)), Typ: types.Typ[types.Int]}
			continue
		}
		env.vars[nm] = SpecVal{T: pv.T, Typ: phi.Type(), V: pv}
	}
	// A loop clause that names a variable which no longer exists, while exactly one loop-carried variable of this loop is
	// named by no clause of the loop: the variable was renamed (for i := … became for k := …). Bind the old name to it, so
	// that a harmless rename does not make the contract stale; the substitution is recorded in the evidence notes.
	env.fallback = func(name string) (SpecVal, bool) {
		cand := f.renamedLoopVar(li, phis)
		if cand == nil {
			return SpecVal{}, false
		}
		pv := phis[cand]
		f.e.note(fmt.Sprintf("loop %d of %s: clause names %q, which is not in scope; bound to the only loop variable no clause names, %q (renamed variable)", li.ordinal, f.fn.Name(), name, cand.Comment))
		return SpecVal{T: pv.T, Typ: cand.Type(), V: pv}, true
	}
	return env
}

// localsBefore: source variables as of just before instruction in (within its own block).
func (f *Frame) localsBefore(in ssa.Instruction) map[string]ssa.Value {
	out := map[string]ssa.Value{}
	for _, x := range in.Block().Instrs {
		if x == in {
			break
		}
		dr, ok := x.(*ssa.DebugRef)
		if !ok {
			continue
		}
		if obj := f.e.p.debugObj(dr); obj != "" {
			if dr.IsAddr {
				// a variable that lives in memory: only its address is a value (spec: &name)
				if _, isAlloc := dr.X.(*ssa.Alloc); isAlloc {
					out["&"+obj] = dr.X
				}
				continue
			}
			out[obj] = dr.X
		}
	}
	return out
}

// localsIn: source variables whose latest value is defined in block b itself.
func (f *Frame) localsIn(b *ssa.BasicBlock) map[string]ssa.Value {
	out := map[string]ssa.Value{}
	for _, in := range b.Instrs {
		dr, ok := in.(*ssa.DebugRef)
		if !ok {
			continue
		}
		if obj := f.e.p.debugObj(dr); obj != "" {
			if dr.IsAddr {
				if _, isAlloc := dr.X.(*ssa.Alloc); isAlloc {
					out["&"+obj] = dr.X
				}
				continue
			}
			out[obj] = dr.X
		}
	}
	return out
}

// localsDominating maps source variable names to the SSA value holding them at block b
// (only variables with a single reaching value among dominating DebugRefs).
func (f *Frame) localsDominating(b *ssa.BasicBlock) map[string]ssa.Value {
	out := map[string]ssa.Value{}
	for _, blk := range f.fn.Blocks {
		if !(blk.Dominates(b)) || blk == b {
			continue
		}
		for _, in := range blk.Instrs {
			dr, ok := in.(*ssa.DebugRef)
			if !ok {
				continue
			}
			obj := f.e.p.debugObj(dr)
			if obj == "" {
				continue
			}
			if dr.IsAddr {
				if _, isAlloc := dr.X.(*ssa.Alloc); isAlloc {
					out["&"+obj] = dr.X
				}
				continue
			}
			out[obj] = dr.X
		}
	}
	return out
}

// bindLocal binds a source-level local in a spec environment. Names of the form "&x" come from variables that live
// in memory (address-taken locals, named results captured by deferred closures): "&x" is bound to the address and,
// unless x is already bound, x itself to the pointer (struct variables: field access loads from the environment's
// state, as Go's implicit dereference does) or to the cell's content in state st (scalars).
func (f *Frame) bindLocal(env *SpecEnv, name string, v ssa.Value, st *State, keep bool) {
	e := f.e
	pv, ok := f.vals[v]
	if !ok {
		return
	}
	if !strings.HasPrefix(name, "&") {
		if _, bound := env.vars[name]; bound && keep {
			return
		}
		if _, inMemory := env.vars["&"+name]; inMemory {
			return // already bound to the variable's memory cell (map iteration order must not matter)
		}
		env.vars[name] = SpecVal{T: e.valTerm(pv, v.Type()), Typ: v.Type(), V: pv}
		return
	}
	ptr := SpecVal{T: e.valTerm(pv, v.Type()), Typ: v.Type(), V: pv}
	env.vars[name] = ptr
	plain := name[1:]
	if _, isParam := f.paramNames()[plain]; isParam {
		return
	}
	// a variable that lives in memory is read from memory: a value recorded when it was initialised would be stale
	pt, ok := v.Type().Underlying().(*types.Pointer)
	if !ok {
		return
	}
	switch su := pt.Elem().Underlying().(type) {
	case *types.Struct:
		// the variable's current value: the struct assembled from its fields in state st
		if st == nil || pv.Addr != nil {
			env.vars[plain] = ptr
			return
		}
		fs := make([]Term, su.NumFields())
		for i := range fs {
			fs[i] = e.loadAddr(st, e.fieldLoc(pt.Elem(), i, pv.T))
		}
		env.vars[plain] = SpecVal{T: e.mkStruct(pt.Elem(), fs), Typ: pt.Elem()}
	case *types.Array:
	default:
		if a := f.ptrAddr(pv, v.Type()); a != nil && st != nil {
			env.vars[plain] = SpecVal{T: e.loadAddr(st, a), Typ: pt.Elem()}
		}
	}
}

// renamedLoopVar: the only named loop-carried variable of loop li that no clause of the loop mentions (nil if there is
// none or more than one).
func (f *Frame) renamedLoopVar(li *loopInfo, phis map[*ssa.Phi]Value) *ssa.Phi {
	if f.parent != nil || f.e.contract == nil {
		return nil
	}
	ls := f.e.contract.Loops[li.ordinal]
	if ls == nil {
		return nil
	}
	mentioned := map[string]bool{}
	collect := func(cl Clause) {
		ast.Inspect(cl.Expr, func(n ast.Node) bool {
			if id, ok := n.(*ast.Ident); ok {
				mentioned[id.Name] = true
			}
			return true
		})
	}
	for _, c := range ls.Invariants {
		collect(c)
	}
	for _, c := range ls.Steps {
		collect(c)
	}
	for _, c := range ls.Exits {
		collect(c)
	}
	if ls.Decreases != nil {
		collect(*ls.Decreases)
	}
	var cand *ssa.Phi
	n := 0
	for _, phi := range li.phis {
		nm := phi.Comment
		if nm == "" || nm == "rangeindex" || mentioned[nm] {
			continue
		}
		if _, ok := phis[phi]; !ok {
			continue
		}
		cand = phi
		n++
	}
	if n != 1 {
		return nil
	}
	return cand
}
