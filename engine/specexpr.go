package main

// Evaluation of spec expressions (Go expression syntax) into SMT terms.

import (
	"fmt"
	"go/ast"
	"go/parser"
	"go/constant"
	"go/token"
	"go/types"
	"math/big"
	"strconv"
	"strings"
)

type SpecVal struct {
	T       Term
	Typ     types.Type // nil for untyped constants
	Untyped bool
	Big     *big.Int
	V       Value
	IsNil   bool
	TypeArg types.Type // when the expression denotes a type
}

type SpecEnv struct {
	e    *Enc
	f    *Frame
	vars map[string]SpecVal
	st   *State
	old  *State
	pkg  *types.Package
	args []SpecVal
	rets []SpecVal
	bound map[string]bool
	quantDepth int
	ghostSt    *State
	prev       map[string]SpecVal
	fallbackPrev func(name string) (SpecVal, bool)
	fallback   func(name string) (SpecVal, bool) // last resort for an identifier that is not in scope (renamed loop variable)
}

func (f *Frame) baseEnv(st *State) *SpecEnv {
	top := f.topFrame()
	env := &SpecEnv{e: f.e, f: f, vars: map[string]SpecVal{}, st: st, old: top.entry}
	if top.fn.Pkg != nil {
		env.pkg = top.fn.Pkg.Pkg
	}
	// parameters of the top-level function by name
	for i, p := range top.fn.Params {
		if i < len(top.params) {
			env.vars[p.Name()] = SpecVal{T: f.e.valTerm(top.params[i], p.Type()), Typ: p.Type(), V: top.params[i]}
		}
	}
	// contract header names override (receiver naming)
	if c := f.e.contract; c != nil && len(c.Params) == len(top.fn.Params) {
		for i, pn := range c.Params {
			p := top.fn.Params[i]
			if i < len(top.params) {
				env.vars[pn] = SpecVal{T: f.e.valTerm(top.params[i], p.Type()), Typ: p.Type(), V: top.params[i]}
			}
		}
	}
	return env
}

func (e *Enc) specError(msg string) {
	e.specErrors = append(e.specErrors, msg)
}

func (env *SpecEnv) evalBool(x ast.Expr) (Term, error) {
	v, err := env.eval(x)
	if err != nil {
		return Term{}, err
	}
	if v.T.Sort != SBool {
		return Term{}, fmt.Errorf("expected a boolean, got sort %s", v.T.Sort)
	}
	return v.T, nil
}

func untypedInt(b *big.Int) SpecVal {
	u := new(big.Int).And(b, new(big.Int).SetUint64(^uint64(0)))
	return SpecVal{T: bvConst(u.Uint64(), 64), Untyped: true, Big: b}
}

func (env *SpecEnv) constOf(c *types.Const) (SpecVal, error) {
	v := c.Val()
	switch v.Kind() {
	case constant.Int:
		b, _ := new(big.Int).SetString(v.ExactString(), 10)
		sv := untypedInt(b)
		if bt, ok := c.Type().Underlying().(*types.Basic); ok && bt.Info()&types.IsUntyped == 0 && bt.Info()&types.IsInteger != 0 {
			sv = env.convTo(sv, c.Type())
		}
		return sv, nil
	case constant.Bool:
		return SpecVal{T: boolConst(constant.BoolVal(v)), Typ: types.Typ[types.Bool]}, nil
	case constant.String:
		return SpecVal{T: env.e.strLit(constant.StringVal(v)), Typ: types.Typ[types.String]}, nil
	}
	return SpecVal{}, fmt.Errorf("unsupported constant kind for %s", c.Name())
}

// convTo adapts an (untyped) integer to a target integer type.
func (env *SpecEnv) convTo(v SpecVal, t types.Type) SpecVal {
	if t == nil {
		return v
	}
	s := env.e.sortOf(t)
	w := s.bvWidth()
	if w == 0 || v.T.Sort.bvWidth() == 0 {
		return v
	}
	if v.Untyped && v.Big != nil {
		u := new(big.Int).And(v.Big, new(big.Int).SetUint64(mask(w)))
		return SpecVal{T: bvConst(u.Uint64(), w), Typ: t}
	}
	signed := true
	if v.Typ != nil {
		signed = isSigned(v.Typ)
	}
	return SpecVal{T: conv(v.T, w, signed), Typ: t}
}

func (env *SpecEnv) lookupType(x ast.Expr) types.Type {
	switch t := x.(type) {
	case *ast.Ident:
		switch t.Name {
		case "int":
			return types.Typ[types.Int]
		case "int8":
			return types.Typ[types.Int8]
		case "int16":
			return types.Typ[types.Int16]
		case "int32":
			return types.Typ[types.Int32]
		case "int64":
			return types.Typ[types.Int64]
		case "uint":
			return types.Typ[types.Uint]
		case "uint8", "byte":
			return types.Typ[types.Uint8]
		case "uint16":
			return types.Typ[types.Uint16]
		case "uint32":
			return types.Typ[types.Uint32]
		case "uint64":
			return types.Typ[types.Uint64]
		case "string":
			return types.Typ[types.String]
		case "bool":
			return types.Typ[types.Bool]
		}
		if env.pkg != nil {
			if tn, ok := env.pkg.Scope().Lookup(t.Name).(*types.TypeName); ok {
				return tn.Type()
			}
		}
	case *ast.SelectorExpr:
		if id, ok := t.X.(*ast.Ident); ok {
			if p := env.e.p.importedPkg(env.pkg, id.Name); p != nil {
				if tn, ok := p.Scope().Lookup(t.Sel.Name).(*types.TypeName); ok {
					return tn.Type()
				}
			}
		}
	case *ast.StarExpr:
		if inner := env.lookupType(t.X); inner != nil {
			return types.NewPointer(inner)
		}
	case *ast.ParenExpr:
		return env.lookupType(t.X)
	case *ast.ArrayType:
		if t.Len == nil {
			if inner := env.lookupType(t.Elt); inner != nil {
				return types.NewSlice(inner)
			}
		}
	}
	return nil
}

func (env *SpecEnv) eval(x ast.Expr) (SpecVal, error) {
	e := env.e
	switch n := x.(type) {
	case *ast.ParenExpr:
		return env.eval(n.X)
	case *ast.BasicLit:
		switch n.Kind {
		case token.INT:
			b, ok := new(big.Int).SetString(n.Value, 0)
			if !ok {
				return SpecVal{}, fmt.Errorf("bad integer literal %s", n.Value)
			}
			return untypedInt(b), nil
		case token.CHAR:
			r, _, _, err := strconv.UnquoteChar(n.Value[1:len(n.Value)-1], '\'')
			if err != nil {
				return SpecVal{}, err
			}
			return untypedInt(big.NewInt(int64(r))), nil
		case token.STRING:
			s, err := strconv.Unquote(n.Value)
			if err != nil {
				return SpecVal{}, err
			}
			return SpecVal{T: e.strLit(s), Typ: types.Typ[types.String]}, nil
		}
		return SpecVal{}, fmt.Errorf("unsupported literal %s", n.Value)
	case *ast.Ident:
		switch n.Name {
		case "true":
			return SpecVal{T: tTrue, Typ: types.Typ[types.Bool]}, nil
		case "false":
			return SpecVal{T: tFalse, Typ: types.Typ[types.Bool]}, nil
		case "nil":
			return SpecVal{IsNil: true}, nil
		}
		if v, ok := env.vars[n.Name]; ok {
			return v, nil
		}
		if n.Name == "exiting" {
			// true while the deferred calls of the function under contract run (RunDefers), false in its body
			b := tFalse
			for fr := env.f; fr != nil; fr = fr.parent {
				if fr.inDefers > 0 && fr.parent == nil {
					b = tTrue
				}
			}
			return SpecVal{T: b, Typ: types.Typ[types.Bool]}, nil
		}
		if env.pkg != nil {
			switch o := env.pkg.Scope().Lookup(n.Name).(type) {
			case *types.Const:
				return env.constOf(o)
			case *types.Var:
				return env.globalVar(o)
			}
		}
		if env.f != nil && env.e.contract != nil {
			// a local that was renamed since the committed version the contract was written against (see renames.go)
			top := env.f.topFrame()
			if nn, ok := e.p.renameMap(top.fn)[n.Name]; ok {
				if v, ok := env.vars[nn]; ok {
					e.note(fmt.Sprintf("%s: contract names %q; the variable is called %q in the working tree (function otherwise identical to the committed version)", top.fn.Name(), n.Name, nn))
					return v, nil
				}
				if v, ok := env.vars["&"+nn]; ok {
					_ = v
				}
			}
		}
		if env.fallback != nil {
			if v, ok := env.fallback(n.Name); ok {
				return v, nil
			}
		}
		return SpecVal{}, fmt.Errorf("unknown identifier %q", strings.ReplaceAll(n.Name, "ζ", "$"))
	case *ast.SelectorExpr:
		if id, ok := n.X.(*ast.Ident); ok {
			if _, isVar := env.vars[id.Name]; !isVar {
				if p := e.p.importedPkg(env.pkg, id.Name); p != nil {
					switch o := p.Scope().Lookup(n.Sel.Name).(type) {
					case *types.Const:
						return env.constOf(o)
					case *types.Var:
						return env.globalVar(o)
					}
					return SpecVal{}, fmt.Errorf("unknown %s.%s", id.Name, n.Sel.Name)
				}
			}
		}
		base, err := env.eval(n.X)
		if err != nil {
			return SpecVal{}, err
		}
		return env.field(base, n.Sel.Name)
	case *ast.UnaryExpr:
		if n.Op == token.AND {
			return env.addrOf(n.X)
		}
		v, err := env.eval(n.X)
		if err != nil {
			return SpecVal{}, err
		}
		switch n.Op {
		case token.NOT:
			if v.T.Sort != SBool {
				return SpecVal{}, fmt.Errorf("! on non-boolean")
			}
			return SpecVal{T: not(v.T), Typ: types.Typ[types.Bool]}, nil
		case token.SUB:
			if v.Untyped && v.Big != nil {
				return untypedInt(new(big.Int).Neg(v.Big)), nil
			}
			return SpecVal{T: bvSub(bvConst(0, v.T.Sort.bvWidth()), v.T), Typ: v.Typ}, nil
		case token.XOR:
			return SpecVal{T: app(v.T.Sort, "bvnot", v.T), Typ: v.Typ}, nil
		}
		return SpecVal{}, fmt.Errorf("unsupported unary operator %s", n.Op)
	case *ast.BinaryExpr:
		return env.binary(n)
	case *ast.CallExpr:
		return env.callExpr(n)
	case *ast.IndexExpr:
		if id, ok := n.X.(*ast.Ident); ok && (id.Name == "arg" || id.Name == "ret") {
			if _, shadow := env.vars[id.Name]; !shadow {
				iv, err := env.eval(n.Index)
				if err != nil || !iv.T.isC {
					return SpecVal{}, fmt.Errorf("%s[...] needs a constant index", id.Name)
				}
				lst := env.args
				if id.Name == "ret" {
					lst = env.rets
				}
				if int(iv.T.c) >= len(lst) {
					return SpecVal{}, fmt.Errorf("%s[%d] out of range (have %d)", id.Name, iv.T.c, len(lst))
				}
				return lst[iv.T.c], nil
			}
		}
		// ret(F)[i], argof(F)[i]
		if ce, ok := n.X.(*ast.CallExpr); ok {
			if id, ok := ce.Fun.(*ast.Ident); ok && (id.Name == "ret" || id.Name == "argof") && len(ce.Args) == 1 {
				pat := patternOf(ce.Args[0])
				iv, err := env.eval(n.Index)
				if err != nil || !iv.T.isC {
					return SpecVal{}, fmt.Errorf("%s(..)[...] needs a constant index", id.Name)
				}
				kind := "ret"
				if id.Name == "argof" {
					kind = "arg"
				}
				gn := ghostName(kind, pat, int(iv.T.c))
				s, ok := e.ghostSorts[gn]
				if !ok {
					return SpecVal{}, fmt.Errorf("%s(%s)[%d]: no call of %s precedes this point (pattern must be tracked)", id.Name, pat, iv.T.c, pat)
				}
				gst := env.st
				if env.ghostSt != nil {
					gst = env.ghostSt
				}
				return SpecVal{T: e.heap(gst, gn, s), Typ: e.ghostTypes[gn]}, nil
			}
		}
		base, err := env.eval(n.X)
		if err != nil {
			return SpecVal{}, err
		}
		idx, err := env.eval(n.Index)
		if err != nil {
			return SpecVal{}, err
		}
		return env.index(base, idx)
	case *ast.SliceExpr:
		base, err := env.eval(n.X)
		if err != nil {
			return SpecVal{}, err
		}
		if base.T.Sort != SSlice {
			return SpecVal{}, fmt.Errorf("slice expression on non-slice")
		}
		lo, hi := i64(0), sLen(base.T)
		if n.Low != nil {
			v, err := env.eval(n.Low)
			if err != nil {
				return SpecVal{}, err
			}
			lo = conv64(v)
		}
		if n.High != nil {
			v, err := env.eval(n.High)
			if err != nil {
				return SpecVal{}, err
			}
			hi = conv64(v)
		}
		return SpecVal{T: mkSlice(sReg(base.T), bvAdd(sOff(base.T), lo), bvSub(hi, lo), bvSub(sCap(base.T), lo)), Typ: base.Typ}, nil
	case *ast.StarExpr:
		base, err := env.eval(n.X)
		if err != nil {
			return SpecVal{}, err
		}
		if base.Typ == nil {
			return SpecVal{}, fmt.Errorf("deref of untyped value")
		}
		if _, ok := base.Typ.Underlying().(*types.Pointer); !ok {
			return SpecVal{}, fmt.Errorf("deref of non-pointer")
		}
		save := env.f.st
		env.f.st = env.st
		t := env.f.loadPtr(base.V.orTerm(base.T), base.Typ)
		env.f.st = save
		return SpecVal{T: t, Typ: base.Typ.Underlying().(*types.Pointer).Elem()}, nil
	}
	return SpecVal{}, fmt.Errorf("unsupported spec expression %T", x)
}

func (v Value) orTerm(t Term) Value {
	if v.T.S == "" && v.Addr == nil {
		v.T = t
	}
	return v
}

func patternOf(x ast.Expr) string {
	return strings.ReplaceAll(patternOf0(x), "ξ", "#")
}

func patternOf0(x ast.Expr) string {
	switch n := x.(type) {
	case *ast.BasicLit:
		if s, err := strconv.Unquote(n.Value); err == nil {
			return s
		}
		return n.Value
	case *ast.Ident:
		return n.Name
	case *ast.SelectorExpr:
		return patternOf0(n.X) + "." + n.Sel.Name
	case *ast.ParenExpr:
		return patternOf0(n.X)
	case *ast.StarExpr:
		return patternOf0(n.X)
	}
	return fmt.Sprintf("%T", x)
}

func (env *SpecEnv) globalVar(o *types.Var) (SpecVal, error) {
	g := env.e.p.globalByObj(o)
	if g == nil {
		return SpecVal{}, fmt.Errorf("global %s not found in SSA program", o.Name())
	}
	a := env.e.globalAddr(g)
	return SpecVal{T: env.e.loadAddr(env.st, a), Typ: o.Type()}, nil
}

func (env *SpecEnv) field(base SpecVal, name string) (SpecVal, error) {
	e := env.e
	if base.Typ == nil {
		return SpecVal{}, fmt.Errorf("field %s of untyped value", name)
	}
	t := base.Typ
	isPtr := false
	if p, ok := t.Underlying().(*types.Pointer); ok {
		t = p.Elem()
		isPtr = true
	}
	st, ok := t.Underlying().(*types.Struct)
	if !ok {
		return SpecVal{}, fmt.Errorf("field %s of non-struct type %s", name, t)
	}
	for i := 0; i < st.NumFields(); i++ {
		if st.Field(i).Name() != name {
			continue
		}
		ft := st.Field(i).Type()
		if isPtr {
			lt := e.loadAddr(env.st, e.fieldLoc(t, i, base.T))
			if env.quantDepth == 0 && env.f != nil {
				e.entryClosure(env.f.topFrame().entry, e.fieldLoc(t, i, base.T))
			}
			if env.quantDepth == 0 && lt.Sort == SSlice {
				// A3 for slices resident in the heap (the code-side loads assume the same)
				e.assume(e.sliceWF(lt))
			}
			return SpecVal{T: lt, Typ: ft}, nil
		}
		return SpecVal{T: e.structField(base.T, t, i), Typ: ft}, nil
	}
	// embedded structs: search one level
	for i := 0; i < st.NumFields(); i++ {
		if !st.Field(i).Embedded() {
			continue
		}
		var inner SpecVal
		ft := st.Field(i).Type()
		if isPtr {
			hn, hs := e.fieldHeapName(t, i)
			inner = SpecVal{T: sel(e.heap(env.st, hn, hs), base.T), Typ: ft}
		} else {
			inner = SpecVal{T: e.structField(base.T, t, i), Typ: ft}
		}
		if r, err := env.field(inner, name); err == nil {
			return r, nil
		}
	}
	return SpecVal{}, fmt.Errorf("type %s has no field %s", t, name)
}

func (env *SpecEnv) index(base, idx SpecVal) (SpecVal, error) {
	e := env.e
	i := conv64(idx)
	switch {
	case base.T.Sort == SSlice:
		var el types.Type = types.Typ[types.Uint8]
		if base.Typ != nil {
			if sl, ok := base.Typ.Underlying().(*types.Slice); ok {
				el = sl.Elem()
			}
		}
		hn, hs := e.elemHeapName(e.sortOf(el))
		return SpecVal{T: sel(sel(e.heap(env.st, hn, hs), sReg(base.T)), bvAdd(sOff(base.T), i)), Typ: el}, nil
	case base.T.Sort == SStr:
		return SpecVal{T: app(SBV8, "strat", base.T, i), Typ: types.Typ[types.Uint8]}, nil
	case strings.HasPrefix(string(base.T.Sort), "(Array"):
		var el types.Type
		if base.Typ != nil {
			if a, ok := base.Typ.Underlying().(*types.Array); ok {
				el = a.Elem()
			}
		}
		return SpecVal{T: sel(base.T, i), Typ: el}, nil
	}
	if base.Typ != nil {
		if mt, ok := base.Typ.Underlying().(*types.Map); ok {
			pn, ps, vn, vs := e.mapHeaps(mt)
			k := env.convTo(idx, mt.Key())
			present := and(not(eq(base.T, i64(0))), sel(sel(e.heap(env.st, pn, ps), base.T), k.T))
			return SpecVal{T: ite(present, sel(sel(e.heap(env.st, vn, vs), base.T), k.T), e.zero(mt.Elem())), Typ: mt.Elem()}, nil
		}
	}
	return SpecVal{}, fmt.Errorf("cannot index a value of sort %s", base.T.Sort)
}

func (env *SpecEnv) unify(a, b SpecVal) (SpecVal, SpecVal, bool) {
	// nil adapts to the other side
	if a.IsNil && !b.IsNil {
		a = env.nilOf(b)
	} else if b.IsNil && !a.IsNil {
		b = env.nilOf(a)
	}
	if a.Untyped && !b.Untyped {
		a = env.convTo(a, b.Typ)
	} else if b.Untyped && !a.Untyped {
		b = env.convTo(b, a.Typ)
	}
	wa, wb := a.T.Sort.bvWidth(), b.T.Sort.bvWidth()
	if wa > 0 && wb > 0 && wa != wb {
		if wa < wb {
			a = SpecVal{T: conv(a.T, wb, a.Typ != nil && isSigned(a.Typ)), Typ: b.Typ}
		} else {
			b = SpecVal{T: conv(b.T, wa, b.Typ != nil && isSigned(b.Typ)), Typ: a.Typ}
		}
	}
	signed := true
	if a.Typ != nil && isInteger(a.Typ) {
		signed = isSigned(a.Typ)
		if b.Typ != nil && isInteger(b.Typ) && !b.Untyped && isSigned(b.Typ) {
			signed = signed || false
		}
	} else if b.Typ != nil && isInteger(b.Typ) {
		signed = isSigned(b.Typ)
	}
	return a, b, signed
}

func (env *SpecEnv) nilOf(o SpecVal) SpecVal {
	switch o.T.Sort {
	case SIface:
		return SpecVal{T: sym("inil", SIface), Typ: o.Typ}
	case SSlice:
		return SpecVal{T: mkSlice(i64(0), i64(0), i64(0), i64(0)), Typ: o.Typ, IsNil: true}
	}
	return SpecVal{T: i64(0), Typ: o.Typ}
}

func (env *SpecEnv) binary(n *ast.BinaryExpr) (SpecVal, error) {
	a, err := env.eval(n.X)
	if err != nil {
		return SpecVal{}, err
	}
	b, err := env.eval(n.Y)
	if err != nil {
		return SpecVal{}, err
	}
	boolT := types.Typ[types.Bool]
	switch n.Op {
	case token.LAND:
		if a.T.Sort != SBool || b.T.Sort != SBool {
			return SpecVal{}, fmt.Errorf("&& on non-boolean")
		}
		return SpecVal{T: and(a.T, b.T), Typ: boolT}, nil
	case token.LOR:
		if a.T.Sort != SBool || b.T.Sort != SBool {
			return SpecVal{}, fmt.Errorf("|| on non-boolean")
		}
		return SpecVal{T: or(a.T, b.T), Typ: boolT}, nil
	}
	if a.Untyped && b.Untyped && a.Big != nil && b.Big != nil {
		r := new(big.Int)
		switch n.Op {
		case token.ADD:
			return untypedInt(r.Add(a.Big, b.Big)), nil
		case token.SUB:
			return untypedInt(r.Sub(a.Big, b.Big)), nil
		case token.MUL:
			return untypedInt(r.Mul(a.Big, b.Big)), nil
		case token.QUO:
			if b.Big.Sign() == 0 {
				return SpecVal{}, fmt.Errorf("division by zero in spec")
			}
			return untypedInt(r.Quo(a.Big, b.Big)), nil
		case token.SHL:
			return untypedInt(r.Lsh(a.Big, uint(b.Big.Uint64()))), nil
		case token.SHR:
			return untypedInt(r.Rsh(a.Big, uint(b.Big.Uint64()))), nil
		case token.EQL:
			return SpecVal{T: boolConst(a.Big.Cmp(b.Big) == 0), Typ: boolT}, nil
		case token.NEQ:
			return SpecVal{T: boolConst(a.Big.Cmp(b.Big) != 0), Typ: boolT}, nil
		case token.LSS:
			return SpecVal{T: boolConst(a.Big.Cmp(b.Big) < 0), Typ: boolT}, nil
		case token.LEQ:
			return SpecVal{T: boolConst(a.Big.Cmp(b.Big) <= 0), Typ: boolT}, nil
		case token.GTR:
			return SpecVal{T: boolConst(a.Big.Cmp(b.Big) > 0), Typ: boolT}, nil
		case token.GEQ:
			return SpecVal{T: boolConst(a.Big.Cmp(b.Big) >= 0), Typ: boolT}, nil
		}
	}
	if n.Op == token.SHL || n.Op == token.SHR {
		if b.Untyped {
			b = SpecVal{T: b.T, Typ: types.Typ[types.Uint64]}
		}
		if a.Untyped {
			a = SpecVal{T: a.T, Typ: types.Typ[types.Int]}
		}
		return SpecVal{T: shiftTerm(n.Op, a.T, b.T, isSigned(a.Typ), false), Typ: a.Typ}, nil
	}
	a, b, signed := env.unify(a, b)
	if a.IsNil && b.IsNil && a.T.S == "" {
		return SpecVal{T: boolConst(n.Op == token.EQL), Typ: boolT}, nil
	}
	switch n.Op {
	case token.EQL, token.NEQ:
		var r Term
		if a.T.Sort != b.T.Sort {
			return SpecVal{}, fmt.Errorf("comparison of different sorts %s and %s", a.T.Sort, b.T.Sort)
		}
		if a.T.Sort == SSlice && (a.IsNil || b.IsNil) {
			o := a
			if a.IsNil {
				o = b
			}
			r = eq(sReg(o.T), i64(0))
		} else {
			r = eq(a.T, b.T)
		}
		if n.Op == token.NEQ {
			r = not(r)
		}
		return SpecVal{T: r, Typ: boolT}, nil
	}
	if a.T.Sort == SStr && b.T.Sort == SStr && n.Op == token.ADD {
		r := app(SStr, "strcat", a.T, b.T)
		return SpecVal{T: r, Typ: types.Typ[types.String]}, nil
	}
	if a.T.Sort.bvWidth() == 0 || a.T.Sort != b.T.Sort {
		return SpecVal{}, fmt.Errorf("operator %s on sorts %s, %s", n.Op, a.T.Sort, b.T.Sort)
	}
	rt := a.Typ
	if rt == nil {
		rt = b.Typ
	}
	cmp := func(u, s string) (SpecVal, error) {
		op := u
		if signed {
			op = s
		}
		return SpecVal{T: bvCmp(op, a.T, b.T), Typ: boolT}, nil
	}
	switch n.Op {
	case token.LSS:
		return cmp("bvult", "bvslt")
	case token.LEQ:
		return cmp("bvule", "bvsle")
	case token.GTR:
		return cmp("bvugt", "bvsgt")
	case token.GEQ:
		return cmp("bvuge", "bvsge")
	case token.ADD:
		return SpecVal{T: bvBin("bvadd", a.T, b.T), Typ: rt}, nil
	case token.SUB:
		return SpecVal{T: bvBin("bvsub", a.T, b.T), Typ: rt}, nil
	case token.MUL:
		return SpecVal{T: bvBin("bvmul", a.T, b.T), Typ: rt}, nil
	case token.AND:
		return SpecVal{T: bvBin("bvand", a.T, b.T), Typ: rt}, nil
	case token.OR:
		return SpecVal{T: bvBin("bvor", a.T, b.T), Typ: rt}, nil
	case token.XOR:
		return SpecVal{T: bvBin("bvxor", a.T, b.T), Typ: rt}, nil
	case token.QUO:
		if signed {
			return SpecVal{T: app(a.T.Sort, "bvsdiv", a.T, b.T), Typ: rt}, nil
		}
		return SpecVal{T: app(a.T.Sort, "bvudiv", a.T, b.T), Typ: rt}, nil
	case token.REM:
		if signed {
			return SpecVal{T: app(a.T.Sort, "bvsrem", a.T, b.T), Typ: rt}, nil
		}
		return SpecVal{T: app(a.T.Sort, "bvurem", a.T, b.T), Typ: rt}, nil
	}
	return SpecVal{}, fmt.Errorf("unsupported binary operator %s", n.Op)
}

func (env *SpecEnv) quant(kind string, args []ast.Expr) (SpecVal, error) {
	if len(args) != 4 {
		return SpecVal{}, fmt.Errorf("%s(i, lo, hi, P) needs four arguments", kind)
	}
	id, ok := args[0].(*ast.Ident)
	if !ok {
		return SpecVal{}, fmt.Errorf("%s: first argument must be an identifier", kind)
	}
	lo, err := env.eval(args[1])
	if err != nil {
		return SpecVal{}, err
	}
	hi, err := env.eval(args[2])
	if err != nil {
		return SpecVal{}, err
	}
	q := env.e.qvar() + "_" + sanitize(id.Name)
	saved, had := env.vars[id.Name]
	env.vars[id.Name] = SpecVal{T: sym(q, SBV64), Typ: types.Typ[types.Int]}
	env.quantDepth++
	body, err := env.evalBool(args[3])
	env.quantDepth--
	if had {
		env.vars[id.Name] = saved
	} else {
		delete(env.vars, id.Name)
	}
	if err != nil {
		return SpecVal{}, err
	}
	rng := and(sle(conv64(lo), sym(q, SBV64)), slt(sym(q, SBV64), conv64(hi)))
	var t Term
	if kind == "forall" {
		t = Term{S: fmt.Sprintf("(forall ((%s (_ BitVec 64))) %s)", q, implies(rng, body).S), Sort: SBool}
	} else {
		t = Term{S: fmt.Sprintf("(exists ((%s (_ BitVec 64))) %s)", q, and(rng, body).S), Sort: SBool}
	}
	return SpecVal{T: t, Typ: types.Typ[types.Bool]}, nil
}

func (env *SpecEnv) callExpr(n *ast.CallExpr) (SpecVal, error) {
	e := env.e
	boolT := types.Typ[types.Bool]
	// conversions
	if t := env.lookupType(n.Fun); t != nil && len(n.Args) == 1 {
		if id, ok := n.Fun.(*ast.Ident); !ok || env.vars[id.Name].T.S == "" {
			v, err := env.eval(n.Args[0])
			if err != nil {
				return SpecVal{}, err
			}
			if v.IsNil && v.T.S == "" {
				r := env.nilOf(SpecVal{T: Term{Sort: e.sortOf(t)}})
				r.Typ = t
				r.IsNil = false
				return r, nil
			}
			if v.T.Sort.bvWidth() > 0 && e.sortOf(t).bvWidth() > 0 {
				return env.convTo(v, t), nil
			}
			if v.T.Sort == e.sortOf(t) {
				return SpecVal{T: v.T, Typ: t, V: v.V}, nil
			}
			if v.T.Sort == SSlice && e.sortOf(t) == SStr && env.quantDepth == 0 {
				// string(b): the same term the encoder builds for the code's conversion (content of b in this state)
				hn, hs := e.elemHeapName(SBV8)
				h := e.heap(env.st, hn, hs)
				e.predeclare("strof", fmt.Sprintf("(declare-fun strof (%s (_ BitVec 64) (_ BitVec 64)) Str)", arraySort(SBV64, SBV8)))
				r := app(SStr, "strof", sel(h, sReg(v.T)), sOff(v.T), sLen(v.T))
				return SpecVal{T: r, Typ: t}, nil
			}
			return SpecVal{}, fmt.Errorf("unsupported conversion to %s", t)
		}
	}
	name := ""
	switch fx := n.Fun.(type) {
	case *ast.Ident:
		name = fx.Name
	case *ast.SelectorExpr:
		name = exprString(fx)
	}
	evalArgs := func() ([]SpecVal, error) {
		var out []SpecVal
		for _, a := range n.Args {
			v, err := env.eval(a)
			if err != nil {
				return nil, err
			}
			out = append(out, v)
		}
		return out, nil
	}
	switch name {
	case "forall", "exists":
		return env.quant(name, n.Args)
	case "old":
		if len(n.Args) != 1 {
			return SpecVal{}, fmt.Errorf("old(e) needs one argument")
		}
		if env.old == nil {
			return SpecVal{}, fmt.Errorf("old() not available here")
		}
		save := env.st
		if env.ghostSt == nil {
			env.ghostSt = env.st // ret()/called()/argof() always refer to the call history up to now
		}
		env.st = env.old
		v, err := env.eval(n.Args[0])
		env.st = save
		if env.ghostSt == save {
			env.ghostSt = nil
		}
		return v, err
	case "prev":
		// prev(x): value of the loop-carried variable x at the loop head (only inside `step` clauses)
		if len(n.Args) != 1 || env.prev == nil {
			return SpecVal{}, fmt.Errorf("prev(x) is only available in loop step clauses")
		}
		id, ok := n.Args[0].(*ast.Ident)
		if !ok {
			return SpecVal{}, fmt.Errorf("prev needs a variable name")
		}
		v, ok := env.prev[id.Name]
		if !ok {
			if nn := env.renamedTo(id.Name); nn != "" {
				v, ok = env.prev[nn]
			}
		}
		if !ok && env.fallbackPrev != nil {
			v, ok = env.fallbackPrev(id.Name)
		}
		if !ok {
			return SpecVal{}, fmt.Errorf("prev(%s): not a loop-carried variable", id.Name)
		}
		return v, nil
	case "called", "itercalled":
		if len(n.Args) != 1 {
			return SpecVal{}, fmt.Errorf("called(F) needs one argument")
		}
		pat := patternOf(n.Args[0])
		if !contains(e.tracked, pat) {
			return SpecVal{}, fmt.Errorf("called(%s): pattern is not tracked", pat)
		}
		gn := ghostName(name, pat, -1)
		if !e.predecl[gn+"@0"] {
			e.predeclare(gn+"@0", fmt.Sprintf("(declare-const %s@0 Bool)\n(assert (not %s@0))", gn, gn))
		}
		gst := env.st
		if env.ghostSt != nil {
			gst = env.ghostSt
		}
		return SpecVal{T: e.heap(gst, gn, SBool), Typ: boolT}, nil
	case "len", "cap":
		args, err := evalArgs()
		if err != nil || len(args) != 1 {
			return SpecVal{}, fmt.Errorf("%s: %v", name, err)
		}
		intT := types.Typ[types.Int]
		switch {
		case args[0].T.Sort == SSlice && name == "len":
			return SpecVal{T: sLen(args[0].T), Typ: intT}, nil
		case args[0].T.Sort == SSlice:
			return SpecVal{T: sCap(args[0].T), Typ: intT}, nil
		case args[0].T.Sort == SStr:
			return SpecVal{T: app(SBV64, "strlen", args[0].T), Typ: intT}, nil
		}
		if args[0].Typ != nil {
			if a, ok := args[0].Typ.Underlying().(*types.Array); ok {
				return SpecVal{T: i64(a.Len()), Typ: intT}, nil
			}
			if mt, ok := args[0].Typ.Underlying().(*types.Map); ok && name == "len" {
				return SpecVal{T: ite(eq(args[0].T, i64(0)), i64(0), e.mapLen(env.st, mt, args[0].T)), Typ: intT}, nil
			}
		}
		return SpecVal{}, fmt.Errorf("%s of sort %s", name, args[0].T.Sort)
	case "le16", "le32", "le64", "be16", "be32", "be64":
		args, err := evalArgs()
		if err != nil || len(args) != 1 {
			return SpecVal{}, fmt.Errorf("%s needs a byte slice: %v", name, err)
		}
		w, _ := strconv.Atoi(name[2:])
		typ := map[int]types.Type{16: types.Typ[types.Uint16], 32: types.Typ[types.Uint32], 64: types.Typ[types.Uint64]}[w]
		if args[0].T.Sort == arraySort(SBV64, SBV8) {
			// byte array value: read from index 0
			return SpecVal{T: readInt(args[0].T, i64(0), w/8, name[0] == 'l'), Typ: typ}, nil
		}
		if args[0].T.Sort != SSlice {
			return SpecVal{}, fmt.Errorf("%s needs a byte slice or byte array", name)
		}
		_, _, h := byteHeap(e, env.st)
		return SpecVal{T: readInt(sel(h, sReg(args[0].T)), sOff(args[0].T), w/8, name[0] == 'l'), Typ: typ}, nil
	case "sameslice":
		args, err := evalArgs()
		if err != nil || len(args) != 2 {
			return SpecVal{}, fmt.Errorf("sameslice: %v", err)
		}
		a, b := args[0].T, args[1].T
		if a.Sort != SSlice || b.Sort != SSlice {
			return SpecVal{}, fmt.Errorf("sameslice needs slices")
		}
		return SpecVal{T: and(eq(sReg(a), sReg(b)), eq(sOff(a), sOff(b)), eq(sLen(a), sLen(b))), Typ: boolT}, nil
	case "haskey":
		args, err := evalArgs()
		if err != nil || len(args) != 2 || args[0].Typ == nil {
			return SpecVal{}, fmt.Errorf("haskey(m, k): %v", err)
		}
		mt, ok := args[0].Typ.Underlying().(*types.Map)
		if !ok {
			return SpecVal{}, fmt.Errorf("haskey needs a map")
		}
		pn, ps, _, _ := e.mapHeaps(mt)
		k := env.convTo(args[1], mt.Key())
		return SpecVal{T: and(not(eq(args[0].T, i64(0))), sel(sel(e.heap(env.st, pn, ps), args[0].T), k.T)), Typ: boolT}, nil
	case "sameregion":
		args, err := evalArgs()
		if err != nil || len(args) != 2 || args[0].T.Sort != SSlice || args[1].T.Sort != SSlice {
			return SpecVal{}, fmt.Errorf("sameregion needs two slices: %v", err)
		}
		return SpecVal{T: eq(sReg(args[0].T), sReg(args[1].T)), Typ: boolT}, nil
	case "eqbytes":
		// eqbytes(a, b): same length and same content (in the current state);
		// eqbytes(a, old(b)) works because old() switches the state for its argument only — contents
		// are read when the byte is selected, so use eqold(a, b) to compare a now with b at entry.
		args, err := evalArgs()
		if err != nil || len(args) != 2 {
			return SpecVal{}, fmt.Errorf("eqbytes: %v", err)
		}
		return env.eqBytes(args[0], env.st, args[1], env.st)
	case "eqcontent":
		// eqcontent(a, b): the content equality of the bytes.Equal model (see bytesEqualTerm), in the current state
		args, err := evalArgs()
		if err != nil || len(args) != 2 || args[0].T.Sort != SSlice || args[1].T.Sort != SSlice {
			return SpecVal{}, fmt.Errorf("eqcontent needs two byte slices: %v", err)
		}
		t, _ := bytesEqualTerm(e, env.st, args[0].T, args[1].T)
		return SpecVal{T: t, Typ: boolT}, nil
	case "eqold":
		args, err := evalArgs()
		if err != nil || len(args) != 2 {
			return SpecVal{}, fmt.Errorf("eqold: %v", err)
		}
		if env.old == nil {
			return SpecVal{}, fmt.Errorf("eqold: no entry state")
		}
		return env.eqBytes(args[0], env.st, args[1], env.old)
	case "ufcall":
		// ufcall("Pattern", i, recv?, args...): the i-th result of a `pure` contracted function applied to
		// the given arguments (the same uninterpreted function the call sites use)
		if len(n.Args) < 2 {
			return SpecVal{}, fmt.Errorf("ufcall(pattern, index, args...)")
		}
		pat := patternOf(n.Args[0])
		iv, err := env.eval(n.Args[1])
		if err != nil || !iv.T.isC {
			return SpecVal{}, fmt.Errorf("ufcall: constant result index needed")
		}
		var ct *Contract
		for _, c := range e.p.contracts.Order {
			if c.Pure && matchPattern(pat, c.Key) {
				ct = c
				break
			}
		}
		if ct == nil {
			return SpecVal{}, fmt.Errorf("ufcall: no pure contract matches %q", pat)
		}
		var vals []Value
		var tys []types.Type
		for _, a := range n.Args[2:] {
			v, err := env.eval(a)
			if err != nil {
				return SpecVal{}, err
			}
			if v.IsNil && v.T.S == "" {
				return SpecVal{}, fmt.Errorf("ufcall: untyped nil argument")
			}
			vals = append(vals, Value{T: v.T})
			tys = append(tys, v.Typ)
		}
		rtp := e.p.resultType(ct.Key, int(iv.T.c))
		if rtp == nil {
			return SpecVal{}, fmt.Errorf("ufcall: cannot find result type of %s", ct.Key)
		}
		e.trust("pure (deterministic, state-independent) function assumed: " + ct.Key)
		return SpecVal{T: env.f.ufResultSorts(ct.Key, int(iv.T.c), vals, rtp), Typ: rtp}, nil
	case "gouf_bool", "gouf_string", "gouf_int":
		// gouf_T("pkg.Func", args...): the deterministic uninterpreted function that models the Go library
		// function pkg.Func at call sites (strings.*, strconv.*, filepath.*, ...), result type T
		if len(n.Args) < 1 {
			return SpecVal{}, fmt.Errorf("%s needs a function name", name)
		}
		fname := patternOf(n.Args[0])
		if !isDeterministic(fname) {
			return SpecVal{}, fmt.Errorf("%s: %s is not modelled as a deterministic function", name, fname)
		}
		var vals []Value
		for _, a := range n.Args[1:] {
			v, err := env.eval(a)
			if err != nil {
				return SpecVal{}, err
			}
			vals = append(vals, Value{T: v.T})
		}
		rtp := map[string]types.Type{"gouf_bool": types.Typ[types.Bool], "gouf_string": types.Typ[types.String], "gouf_int": types.Typ[types.Int]}[name]
		e.trust("effect-free library call (A4/A7): " + fname)
		return SpecVal{T: env.f.ufResultSorts(fname, 0, vals, rtp), Typ: rtp}, nil
	case "buflen":
		// buflen(b): ghost length of a *bytes.Buffer
		args, err := evalArgs()
		if err != nil || len(args) != 1 {
			return SpecVal{}, fmt.Errorf("buflen: %v", err)
		}
		ln, _ := bufHeaps(e, env.st)
		return SpecVal{T: sel(ln, args[0].T), Typ: types.Typ[types.Int]}, nil
	case "bufbyte":
		args, err := evalArgs()
		if err != nil || len(args) != 2 {
			return SpecVal{}, fmt.Errorf("bufbyte: %v", err)
		}
		_, data := bufHeaps(e, env.st)
		return SpecVal{T: sel(sel(data, args[0].T), conv64(args[1])), Typ: types.Typ[types.Uint8]}, nil
	case "isnil":
		args, err := evalArgs()
		if err != nil || len(args) != 1 {
			return SpecVal{}, fmt.Errorf("isnil: %v", err)
		}
		switch args[0].T.Sort {
		case SSlice:
			return SpecVal{T: eq(sReg(args[0].T), i64(0)), Typ: boolT}, nil
		case SIface:
			return SpecVal{T: eq(args[0].T, sym("inil", SIface)), Typ: boolT}, nil
		case SRef:
			return SpecVal{T: eq(args[0].T, i64(0)), Typ: boolT}, nil
		}
		return SpecVal{}, fmt.Errorf("isnil of sort %s", args[0].T.Sort)
	case "typeis":
		// typeis(x, T): dynamic type of interface x is T
		if len(n.Args) != 2 {
			return SpecVal{}, fmt.Errorf("typeis(x, T)")
		}
		v, err := env.eval(n.Args[0])
		if err != nil {
			return SpecVal{}, err
		}
		t := env.lookupType(n.Args[1])
		if t == nil || v.T.Sort != SIface {
			return SpecVal{}, fmt.Errorf("typeis: bad arguments")
		}
		return SpecVal{T: and(not(eq(v.T, sym("inil", SIface))), eq(app(SBV64, "itag", v.T), e.typeTag(t))), Typ: boolT}, nil
	case "unbox":
		if len(n.Args) != 2 {
			return SpecVal{}, fmt.Errorf("unbox(x, T)")
		}
		v, err := env.eval(n.Args[0])
		if err != nil {
			return SpecVal{}, err
		}
		t := env.lookupType(n.Args[1])
		if t == nil || v.T.Sort != SIface {
			return SpecVal{}, fmt.Errorf("unbox: bad arguments")
		}
		return SpecVal{T: e.unbox(t, v.T), Typ: t}, nil
	case "ite":
		args, err := evalArgs()
		if err != nil || len(args) != 3 {
			return SpecVal{}, fmt.Errorf("ite: %v", err)
		}
		a, b, _ := env.unify(args[1], args[2])
		if a.T.Sort != b.T.Sort || args[0].T.Sort != SBool {
			return SpecVal{}, fmt.Errorf("ite: sort mismatch")
		}
		return SpecVal{T: ite(args[0].T, a.T, b.T), Typ: a.Typ}, nil
	case "fresh":
		// fresh(x): x's region was allocated during this call (did not exist at entry)
		args, err := evalArgs()
		if err != nil || len(args) != 1 || env.old == nil {
			return SpecVal{}, fmt.Errorf("fresh: %v", err)
		}
		var r Term
		if args[0].T.Sort == SSlice {
			r = sReg(args[0].T)
		} else {
			r = args[0].T
		}
		return SpecVal{T: ult(env.old.wm, r), Typ: boolT}, nil
	}
	// user spec functions
	if sf, ok := e.p.contracts.SpecFuncs[name]; ok {
		args, err := evalArgs()
		if err != nil {
			return SpecVal{}, err
		}
		return env.specFunc(sf, args)
	}
	return SpecVal{}, fmt.Errorf("unknown spec function %q", name)
}

func (env *SpecEnv) eqBytes(a SpecVal, sa *State, b SpecVal, sb *State) (SpecVal, error) {
	e := env.e
	if a.T.Sort != SSlice || b.T.Sort != SSlice {
		return SpecVal{}, fmt.Errorf("eqbytes needs byte slices")
	}
	_, _, ha := byteHeap(e, sa)
	_, _, hb := byteHeap(e, sb)
	q := e.qvar()
	all := Term{S: fmt.Sprintf("(forall ((%s (_ BitVec 64))) (=> (and (bvsle #x0000000000000000 %s) (bvslt %s %s)) (= (select %s (bvadd %s %s)) (select %s (bvadd %s %s)))))",
		q, q, q, sLen(a.T).S, sel(ha, sReg(a.T)).S, sOff(a.T).S, q, sel(hb, sReg(b.T)).S, sOff(b.T).S, q), Sort: SBool}
	return SpecVal{T: and(eq(sLen(a.T), sLen(b.T)), all), Typ: types.Typ[types.Bool]}, nil
}

func (env *SpecEnv) specSort(tn string) (Sort, types.Type) {
	switch tn {
	case "bool":
		return SBool, types.Typ[types.Bool]
	case "int":
		return SBV64, types.Typ[types.Int]
	case "uint64":
		return SBV64, types.Typ[types.Uint64]
	case "uint32":
		return SBV32, types.Typ[types.Uint32]
	case "uint16":
		return SBV16, types.Typ[types.Uint16]
	case "byte", "uint8":
		return SBV8, types.Typ[types.Uint8]
	case "string":
		return SStr, types.Typ[types.String]
	case "[]byte":
		return SSlice, types.NewSlice(types.Typ[types.Uint8])
	case "error", "interface{}":
		return SIface, types.Universe.Lookup("error").Type()
	case "bytes": // content-level byte string: (row, off, len) abstracted as an uninterpreted sort
		return Sort("Bytes"), nil
	}
	// a Go type of the package (or an imported one)
	if x, err := parser.ParseExpr(tn); err == nil {
		if t := env.lookupType(x); t != nil {
			return env.e.sortOf(t), t
		}
	}
	return SRef, nil
}

func (env *SpecEnv) specFunc(sf *SpecFunc, args []SpecVal) (SpecVal, error) {
	e := env.e
	if len(args) != len(sf.Params) {
		return SpecVal{}, fmt.Errorf("spec function %s: expected %d arguments", sf.Name, len(sf.Params))
	}
	if sf.Def != nil {
		if e.specDepth > 8 {
			return SpecVal{}, fmt.Errorf("spec function %s: expansion too deep", sf.Name)
		}
		sub := &SpecEnv{e: e, f: env.f, vars: map[string]SpecVal{}, st: env.st, old: env.old, pkg: e.p.pkgByPath(sf.PkgPath), args: env.args, rets: env.rets}
		if sub.pkg == nil {
			sub.pkg = env.pkg
		}
		for i, pn := range sf.Params {
			a := args[i]
			if a.Untyped {
				if _, t := env.specSort(sf.PTypes[i]); t != nil {
					a = env.convTo(a, t)
				}
			}
			sub.vars[pn] = a
		}
		e.specDepth++
		v, err := sub.eval(sf.Def.Expr)
		e.specDepth--
		return v, err
	}
	// uninterpreted: byte-slice arguments are passed as (row, off, len) so that the function
	// depends on content, not on identity
	var sorts []string
	var ts []Term
	for i, a := range args {
		ps, pt := env.specSort(sf.PTypes[i])
		if a.Untyped && pt != nil {
			a = env.convTo(a, pt)
		}
		if a.IsNil && a.T.S == "" {
			a = env.nilOf(SpecVal{T: Term{Sort: ps}})
		}
		if sf.PTypes[i] == "[]byte" && a.T.Sort == SSlice {
			_, _, h := byteHeap(e, env.st)
			sorts = append(sorts, string(arraySort(SBV64, SBV8)), string(SBV64), string(SBV64))
			ts = append(ts, sel(h, sReg(a.T)), sOff(a.T), sLen(a.T))
			continue
		}
		sorts = append(sorts, string(a.T.Sort))
		ts = append(ts, a.T)
	}
	rs, rtp := env.specSort(sf.RType)
	fn := "spec_" + sanitize(sf.Name)
	e.predeclare(fn, fmt.Sprintf("(declare-fun %s (%s) %s)", fn, strings.Join(sorts, " "), rs))
	e.trust("uninterpreted spec function: " + sf.Name)
	if len(ts) == 0 {
		return SpecVal{T: sym(fn, rs), Typ: rtp}, nil
	}
	return SpecVal{T: app(rs, fn, ts...), Typ: rtp}, nil
}

// addrOf evaluates &x for the two shapes the code hands to callees: &s[i] (the same opaque interior pointer the
// encoder builds for an IndexAddr on a slice) and &v for a local that lives in memory (its allocation).
func (env *SpecEnv) addrOf(x ast.Expr) (SpecVal, error) {
	e := env.e
	switch n := x.(type) {
	case *ast.ParenExpr:
		return env.addrOf(n.X)
	case *ast.IndexExpr:
		base, err := env.eval(n.X)
		if err != nil {
			return SpecVal{}, err
		}
		sl, ok := base.Typ.Underlying().(*types.Slice)
		if !ok || base.T.Sort != SSlice {
			return SpecVal{}, fmt.Errorf("&x[i]: x is not a slice")
		}
		iv, err := env.eval(n.Index)
		if err != nil {
			return SpecVal{}, err
		}
		if env.quantDepth > 0 {
			return SpecVal{}, fmt.Errorf("&x[i] inside a quantifier is not supported")
		}
		hn, _ := e.elemHeapName(e.sortOf(sl.Elem()))
		v := Value{Addr: &Addr{heap: hn, keys: []Term{sReg(base.T), bvAdd(sOff(base.T), conv64(iv))}, typ: sl.Elem()}}
		return SpecVal{T: e.valTerm(v, types.NewPointer(sl.Elem())), Typ: types.NewPointer(sl.Elem())}, nil
	case *ast.Ident:
		if v, ok := env.vars["&"+n.Name]; ok {
			return v, nil
		}
		if nn := env.renamedTo(n.Name); nn != "" {
			if v, ok := env.vars["&"+nn]; ok {
				return v, nil
			}
		}
		return SpecVal{}, fmt.Errorf("&%s: not a local variable that lives in memory", n.Name)
	}
	return SpecVal{}, fmt.Errorf("unsupported operand of &")
}

// renamedTo: the current name of a local the contract knows under an older name (see renames.go), or "".
func (env *SpecEnv) renamedTo(name string) string {
	if env.f == nil || env.e.contract == nil {
		return ""
	}
	return env.e.p.renameMap(env.f.topFrame().fn)[name]
}
