package main

// Solver racing: z3-new 5.1.0, z3 4.8.12, cvc5 1.0 are started in parallel on the same query;
// the first definite answer (sat/unsat) wins.

import (
	"bytes"
	"context"
	"fmt"
	"os"
	"os/exec"
	"path/filepath"
	"strings"
	"sync"
	"time"
)

type SolverResult struct {
	Verdict string // "unsat", "sat", "unknown", "timeout", "error"
	Solver  string
	Time    float64
	Model   string // raw model text (when sat)
	Output  string // raw output of the deciding (or last) solver
	Others  map[string]string
}

type solverSpec struct {
	name string
	args func(file string, timeoutS int) []string
}

var allSolvers = []solverSpec{
	{"z3-new-5.1.0", func(f string, t int) []string {
		return []string{"z3-new", fmt.Sprintf("-T:%d", t), f}
	}},
	{"cvc5-1.0", func(f string, t int) []string {
		return []string{"cvc5", "--produce-models", fmt.Sprintf("--tlimit=%d", t*1000), f}
	}},
	{"z3-4.8.12", func(f string, t int) []string {
		return []string{"/usr/bin/z3", fmt.Sprintf("-T:%d", t), f}
	}},
}

var solverSem = make(chan struct{}, 16)

func parseVerdict(out string) string {
	for _, line := range strings.Split(out, "\n") {
		line = strings.TrimSpace(line)
		switch line {
		case "unsat", "sat", "unknown", "timeout":
			return line
		}
		if line != "" && !strings.HasPrefix(line, ";") && !strings.HasPrefix(line, "(error") && !strings.HasPrefix(line, "unsupported") {
			break
		}
	}
	if strings.Contains(out, "timeout") || strings.Contains(out, "interrupted") {
		return "timeout"
	}
	return "error"
}

// runOne runs one solver on a file.
func runOne(ctx context.Context, sp solverSpec, file string, timeoutS int) (string, string, float64) {
	solverSem <- struct{}{}
	defer func() { <-solverSem }()
	if ctx.Err() != nil {
		return "cancelled", "", 0
	}
	args := sp.args(file, timeoutS)
	cctx, cancel := context.WithTimeout(ctx, time.Duration(timeoutS+2)*time.Second)
	defer cancel()
	cmd := exec.CommandContext(cctx, args[0], args[1:]...)
	var buf bytes.Buffer
	cmd.Stdout = &buf
	cmd.Stderr = &buf
	start := time.Now()
	_ = cmd.Run()
	el := time.Since(start).Seconds()
	out := buf.String()
	if ctx.Err() != nil {
		return "cancelled", out, el
	}
	if cctx.Err() != nil {
		return "timeout", out, el
	}
	return parseVerdict(out), out, el
}

// solve races the solvers on query (which must end with (check-sat) and optionally (get-model)).
// which selects solver indices; needTwo requires two distinct solvers to agree on a definite answer.
func solve(workdir, name, query string, timeoutS int, needTwo bool) SolverResult {
	file := filepath.Join(workdir, sanitize(name)+".smt2")
	if len(file) > 240 {
		file = filepath.Join(workdir, fmt.Sprintf("q%x.smt2", hashStr(name)))
	}
	if err := os.WriteFile(file, []byte(query), 0o644); err != nil {
		return SolverResult{Verdict: "error", Output: err.Error()}
	}
	ctx, cancel := context.WithCancel(context.Background())
	defer cancel()
	type res struct {
		solver, verdict, out string
		t               float64
	}
	ch := make(chan res, len(allSolvers))
	var wg sync.WaitGroup
	for si, sp := range allSolvers {
		wg.Add(1)
		go func(si int, sp solverSpec) {
			defer wg.Done()
			if si >= 2 && !needTwo {
				// the third solver joins the race only if the first two have not answered quickly
				select {
				case <-ctx.Done():
					ch <- res{sp.name, "cancelled", "", 0}
					return
				case <-time.After(1500 * time.Millisecond):
				}
			}
			v, out, t := runOne(ctx, sp, file, timeoutS)
			ch <- res{sp.name, v, out, t}
		}(si, sp)
	}
	go func() { wg.Wait(); close(ch) }()
	final := SolverResult{Verdict: "unknown", Others: map[string]string{}}
	var definite []res
	for r := range ch {
		final.Others[r.solver] = r.verdict
		if r.verdict == "sat" || r.verdict == "unsat" {
			definite = append(definite, r)
			if len(definite) == 1 {
				final.Verdict, final.Solver, final.Time, final.Output = r.verdict, r.solver, r.t, r.out
				if r.verdict == "sat" {
					final.Model = r.out
				}
			} else if definite[0].verdict != r.verdict {
				final.Verdict = "error"
				final.Output = fmt.Sprintf("SOLVER DISAGREEMENT: %s=%s %s=%s", definite[0].solver, definite[0].verdict, r.solver, r.verdict)
				cancel()
				break
			}
			if !needTwo || len(definite) >= 2 {
				cancel()
				break
			}
		} else if r.verdict != "cancelled" && final.Solver == "" {
			final.Output = r.out
			if r.verdict == "timeout" {
				final.Verdict = "timeout"
			}
		}
	}
	if needTwo && len(definite) == 1 {
		final.Others["single_backend"] = definite[0].solver
	}
	if final.Verdict == "unsat" || final.Verdict == "unknown" || final.Verdict == "timeout" {
		if !keepQueries {
			os.Remove(file)
		}
	}
	return final
}

var keepQueries = os.Getenv("ACV_KEEP") != ""

func hashStr(s string) uint64 {
	var h uint64 = 1469598103934665603
	for i := 0; i < len(s); i++ {
		h ^= uint64(s[i])
		h *= 1099511628211
	}
	return h
}
