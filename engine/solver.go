package main

// Solver racing: z3-new 5.1.0, z3 4.8.12, cvc5 1.0 are started in parallel on the same query;
// the first definite answer (sat/unsat) wins.

import (
	"bytes"
	"regexp"
	"context"
	"fmt"
	"os"
	"os/exec"
	"path/filepath"
	"strings"
	"sync"
	"time"
)

type SolverResult struct {
	Verdict string // "unsat", "sat", "unknown", "timeout", "error"
	Solver  string
	Time    float64
	Model   string // raw model text (when sat)
	Output  string // raw output of the deciding (or last) solver
	Others  map[string]string
}

type solverSpec struct {
	name string
	args func(file string, timeoutS int) []string
}

var allSolvers = []solverSpec{
	{"z3-new-5.1.0", func(f string, t int) []string {
		return []string{"z3-new", fmt.Sprintf("-T:%d", t), f}
	}},
	{"cvc5-1.0", func(f string, t int) []string {
		return []string{"cvc5", "--produce-models", fmt.Sprintf("--tlimit=%d", t*1000), f}
	}},
	{"z3-4.8.12", func(f string, t int) []string {
		return []string{"/usr/bin/z3", fmt.Sprintf("-T:%d", t), f}
	}},
	{"z3-new-5.1.0/ematching", func(f string, t int) []string {
		return []string{"z3-new", fmt.Sprintf("-T:%d", t), "smt.mbqi=false", f}
	}},
}

var solverSem = make(chan struct{}, 16)

func parseVerdict(out string) string {
	for _, line := range strings.Split(out, "\n") {
		line = strings.TrimSpace(line)
		switch line {
		case "unsat", "sat", "unknown", "timeout":
			return line
		}
		if line != "" && !strings.HasPrefix(line, ";") && !strings.HasPrefix(line, "(error") && !strings.HasPrefix(line, "unsupported") {
			break
		}
	}
	if strings.Contains(out, "timeout") || strings.Contains(out, "interrupted") {
		return "timeout"
	}
	return "error"
}

var constArrRe = regexp.MustCompile(`\(\(as const (\(Array \(_ BitVec 64\) [A-Za-z][A-Za-z0-9_]*\))\) ([A-Za-z][A-Za-z0-9_!.@]*)\)`)

// cvc5Compat rewrites constant arrays whose element is not a literal value (e.g. the nil interface) into named
// arrays with a defining axiom, which cvc5 accepts.
func cvc5Compat(q string) string {
	if !constArrRe.MatchString(q) {
		return q
	}
	decls := map[string]string{}
	var order []string
	out := constArrRe.ReplaceAllStringFunc(q, func(m string) string {
		sm := constArrRe.FindStringSubmatch(m)
		if sm[2] == "true" || sm[2] == "false" {
			return m
		}
		name := fmt.Sprintf("zc_%x", hashStr(sm[1]+sm[2]))
		if _, ok := decls[name]; !ok {
			decls[name] = fmt.Sprintf("(declare-const %s %s)\n(assert (forall ((zq (_ BitVec 64))) (= (select %s zq) %s)))\n", name, sm[1], name, sm[2])
			order = append(order, name)
		}
		return name
	})
	// declarations go right before the first assert/define that follows all sort declarations: put them after
	// the last "(declare-" line that precedes the first use
	first := len(out)
	for _, n := range order {
		if k := strings.Index(out, n); k >= 0 && k < first {
			first = k
		}
	}
	lineStart := strings.LastIndex(out[:first], "\n") + 1
	var sb strings.Builder
	sb.WriteString(out[:lineStart])
	for _, n := range order {
		sb.WriteString(decls[n])
	}
	sb.WriteString(out[lineStart:])
	return sb.String()
}

// runOne runs one solver on a file.
func runOne(ctx context.Context, sp solverSpec, file string, timeoutS int) (string, string, float64) {
	solverSem <- struct{}{}
	defer func() { <-solverSem }()
	if ctx.Err() != nil {
		return "cancelled", "", 0
	}
	if strings.HasPrefix(sp.name, "cvc5") {
		if b, err := os.ReadFile(file); err == nil {
			if q2 := cvc5Compat(string(b)); q2 != string(b) {
				cf := file + ".cvc5.smt2"
				if os.WriteFile(cf, []byte(q2), 0o644) == nil {
					defer os.Remove(cf)
					file = cf
				}
			}
		}
	}
	// The budget is CPU time of the solver process (ulimit -t), not wall-clock time: on a busy machine a query takes
	// longer but is decided exactly when it would be decided on an idle one, so verdicts do not depend on the load.
	// The solver's own wall-clock limit and the context deadline are a generous multiple, as a safety net only.
	wall := timeoutS*wallFactor + 5
	args := sp.args(file, wall)
	cctx, cancel := context.WithTimeout(ctx, time.Duration(wall+3)*time.Second)
	defer cancel()
	shArgs := append([]string{"-c", fmt.Sprintf("ulimit -t %d; exec \"$@\"", timeoutS+1), "sh"}, args...)
	cmd := exec.CommandContext(cctx, "/bin/sh", shArgs...)
	var buf bytes.Buffer
	cmd.Stdout = &buf
	cmd.Stderr = &buf
	start := time.Now()
	runErr := cmd.Run()
	el := time.Since(start).Seconds()
	out := buf.String()
	if ctx.Err() != nil {
		return "cancelled", out, el
	}
	if cctx.Err() != nil {
		return "timeout", out, el
	}
	v := parseVerdict(out)
	if runErr != nil && v != "sat" && v != "unsat" {
		if ee, ok := runErr.(*exec.ExitError); ok && !ee.Exited() {
			// killed by SIGXCPU / SIGKILL: CPU budget exhausted
			return "timeout", out, el
		}
	}
	return v, out, el
}

// solve races the solvers on query (which must end with (check-sat) and optionally (get-model)).
// which selects solver indices; needTwo requires two distinct solvers to agree on a definite answer.
func solve(workdir, name, query string, timeoutS int, needTwo bool) SolverResult {
	file := filepath.Join(workdir, sanitize(name)+".smt2")
	if len(file) > 240 {
		file = filepath.Join(workdir, fmt.Sprintf("q%x.smt2", hashStr(name)))
	}
	if err := os.WriteFile(file, []byte(query), 0o644); err != nil {
		return SolverResult{Verdict: "error", Output: err.Error()}
	}
	ctx, cancel := context.WithCancel(context.Background())
	defer cancel()
	type res struct {
		solver, verdict, out string
		t               float64
	}
	ch := make(chan res, len(allSolvers))
	var wg sync.WaitGroup
	for si, sp := range allSolvers {
		wg.Add(1)
		go func(si int, sp solverSpec) {
			defer wg.Done()
			// staged racing: z3-new starts at once, cvc5 shortly after, the others only for hard queries
			delay := []time.Duration{0, 600 * time.Millisecond, 2500 * time.Millisecond, 2500 * time.Millisecond}[si]
			if needTwo && si == 1 {
				delay = 0
			}
			if delay > 0 {
				select {
				case <-ctx.Done():
					ch <- res{sp.name, "cancelled", "", 0}
					return
				case <-time.After(delay):
				}
			}
			v, out, t := runOne(ctx, sp, file, timeoutS)
			ch <- res{sp.name, v, out, t}
		}(si, sp)
	}
	go func() { wg.Wait(); close(ch) }()
	final := SolverResult{Verdict: "unknown", Others: map[string]string{}}
	var definite []res
	for r := range ch {
		final.Others[r.solver] = r.verdict
		if r.verdict == "sat" || r.verdict == "unsat" {
			definite = append(definite, r)
			if len(definite) == 1 {
				final.Verdict, final.Solver, final.Time, final.Output = r.verdict, r.solver, r.t, r.out
				if r.verdict == "sat" {
					final.Model = r.out
				}
			} else if definite[0].verdict != r.verdict {
				final.Verdict = "error"
				final.Output = fmt.Sprintf("SOLVER DISAGREEMENT: %s=%s %s=%s", definite[0].solver, definite[0].verdict, r.solver, r.verdict)
				cancel()
				break
			}
			if !needTwo || len(definite) >= 2 {
				cancel()
				break
			}
		} else if r.verdict != "cancelled" && final.Solver == "" {
			final.Output = r.out
			if r.verdict == "timeout" {
				final.Verdict = "timeout"
			}
		}
	}
	if needTwo && len(definite) == 1 {
		final.Others["single_backend"] = definite[0].solver
	}
	if final.Verdict == "unsat" || final.Verdict == "unknown" || final.Verdict == "timeout" {
		if !keepQueries {
			os.Remove(file)
		}
	}
	return final
}

var keepQueries = os.Getenv("ACV_KEEP") != ""

// wallFactor: wall-clock safety net as a multiple of the CPU budget of a solver run.
const wallFactor = 8

func hashStr(s string) uint64 {
	var h uint64 = 1469598103934665603
	for i := 0; i < len(s); i++ {
		h ^= uint64(s[i])
		h *= 1099511628211
	}
	return h
}
