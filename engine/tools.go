package main

import (
	"encoding/json"
	"flag"
	"fmt"
	"os"
	"path/filepath"
	"sort"
	"strings"
)

// cmdBaseline records the names of all obligations discharged on the current tree.
func cmdBaseline(args []string) int {
	fs := flag.NewFlagSet("baseline", flag.ExitOnError)
	fs.Parse(args)
	props := fs.Args()
	cur := map[string][]string{}
	if b, err := os.ReadFile(filepath.Join(verifDir, "expected_obligations.json")); err == nil {
		json.Unmarshal(b, &cur)
	}
	for _, prop := range props {
		oc, code := runCheck(prop, "quick", nil, 0)
		if code == 2 {
			fmt.Println("ERROR", prop, oc.errors)
			return 2
		}
		sort.Strings(oc.dischargedNames)
		cur[prop] = oc.dischargedNames
		fmt.Printf("baseline %s: %d discharged, %d violations, %d known\n", prop, len(oc.dischargedNames), len(oc.violations), len(oc.knownObls))
		for _, v := range oc.violations {
			fmt.Println("  ", v)
		}
		for _, u := range oc.undecided {
			fmt.Println("  ", u)
		}
	}
	b, _ := json.MarshalIndent(cur, "", " ")
	os.WriteFile(filepath.Join(verifDir, "expected_obligations.json"), b, 0o644)
	return 0
}

var selftestOnly string

type selfEntry struct {
	File    string `json:"file"`
	Find    string `json:"find"`
	Replace string `json:"replace"`
	Expect  string `json:"expect"`
	Note    string `json:"note"`
}

// runSelftest applies each must-fail patch as an in-memory overlay and requires the named obligation to fail.
func runSelftest(prop string) (results []map[string]interface{}, allOK bool) {
	allOK = true
	files, _ := filepath.Glob(filepath.Join(verifDir, "selftest", prop, "*.json"))
	sort.Strings(files)
	for _, f := range files {
		if selftestOnly != "" && !strings.Contains(filepath.Base(f), selftestOnly) {
			continue
		}
		var se selfEntry
		b, _ := os.ReadFile(f)
		if err := json.Unmarshal(b, &se); err != nil {
			results = append(results, map[string]interface{}{"entry": filepath.Base(f), "status": "bad-json"})
			allOK = false
			continue
		}
		path := filepath.Join(repoDir, se.File)
		src, err := os.ReadFile(path)
		if err != nil || !strings.Contains(string(src), se.Find) {
			results = append(results, map[string]interface{}{"entry": filepath.Base(f), "status": "stale", "detail": "text to replace no longer occurs"})
			continue
		}
		mod := strings.Replace(string(src), se.Find, se.Replace, 1)
		oc, code := runCheck(prop, "quick", map[string][]byte{path: []byte(mod)}, 0)
		status := "missed"
		if code == 2 {
			status = "does-not-typecheck"
		}
		var hit string
		for _, v := range oc.violations {
			if strings.Contains(v, "obligation="+se.Expect) || strings.Contains(v, se.Expect) {
				status = "caught"
				hit = v
				break
			}
		}
		if status != "caught" {
			allOK = false
		}
		results = append(results, map[string]interface{}{"entry": filepath.Base(f), "status": status, "expect": se.Expect, "hit": hit})
	}
	return
}

func cmdSelftest(args []string) int {
	fs := flag.NewFlagSet("selftest", flag.ExitOnError)
	fs.StringVar(&selftestOnly, "only", "", "run only the entries whose file name contains this text")
	fs.Parse(args)
	rc := 0
	for _, prop := range fs.Args() {
		res, ok := runSelftest(prop)
		for _, r := range res {
			fmt.Printf("selftest %s %v: %v %v\n", prop, r["entry"], r["status"], r["hit"])
		}
		if !ok {
			rc = 1
		}
	}
	return rc
}

// cmdReplay prints a replay file and, when it contains a generated test, re-runs it on the current tree.
func cmdReplay(args []string) int {
	if len(args) != 1 {
		fmt.Println("usage: acv replay <path>")
		return 2
	}
	b, err := os.ReadFile(args[0])
	if err != nil {
		fmt.Println("ERROR", err)
		return 2
	}
	txt := string(b)
	fmt.Println(txt)
	const m1 = "--- replay test (in-package, injected with go test -overlay) ---\n"
	k := strings.Index(txt, m1)
	if k < 0 {
		return 0
	}
	rest := txt[k+len(m1):]
	j := strings.Index(rest, "--- replay output ---")
	if j < 0 {
		return 0
	}
	src := rest[:j]
	// import path from "function:" line
	fn := ""
	for _, line := range strings.Split(txt, "\n") {
		if strings.HasPrefix(line, "function: ") {
			fn = strings.TrimPrefix(line, "function: ")
		}
	}
	ip := normRe.ReplaceAllString(fn, "")
	if d := strings.LastIndex(ip, "/"); d >= 0 {
		if dot := strings.Index(ip[d:], "."); dot >= 0 {
			ip = ip[:d+dot]
		}
	}
	wd, _ := os.MkdirTemp("", "acvreplay")
	defer os.RemoveAll(wd)
	_, out := runOverlayTest(wd, ip, src, "TestACVReplay")
	fmt.Println("--- re-run on the current tree ---")
	fmt.Println(out)
	pos := ""
	for _, line := range strings.Split(txt, "\n") {
		if strings.HasPrefix(line, "position: ") {
			pos = strings.TrimPrefix(line, "position: ")
		}
	}
	if (strings.Contains(out, "ACV-REPLAY-PANIC:") && pos != "" && strings.Contains(out, "/"+pos)) || strings.Contains(out, "ACV-REPLAY-POST: false") {
		fmt.Println("replay: REPRODUCED on the current tree")
		return 1
	}
	fmt.Println("replay: not reproduced on the current tree")
	return 0
}
