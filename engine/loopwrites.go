package main

import (
	"go/token"
	"go/types"
	"strings"

	"golang.org/x/tools/go/ssa"
)

// Targeted havoc at loop heads.
//
// A loop head forgets what the body may have written. Forgetting a whole heap (all objects of a field, all regions of
// an element type) and then re-establishing "everything else is unchanged" through quantified candidate invariants is
// expensive and fragile. When every write of the body to a heap can be attributed to a key (object id or region) that
// does not change while the loop runs, only those keys are forgotten: H' = store(... store(H, k1, fresh1) ..., kn, freshn).
// This is an over-approximation of the body's effect on H that needs no quantifier.

// invariantValue returns the term of a pointer/slice value that is the same in every iteration, evaluated in the state
// at the loop head (f.st must still be the pre-havoc state).
func (f *Frame) invariantValue(li *loopInfo, v ssa.Value, eff *effects, depth int) (Term, bool) {
	e := f.e
	if depth > 4 {
		return Term{}, false
	}
	plain := func(x ssa.Value) (Term, bool) {
		pv, ok := f.vals[x]
		if !ok {
			switch x.(type) {
			case *ssa.Parameter, *ssa.FreeVar, *ssa.Const, *ssa.Global, *ssa.Function:
				pv = f.val(x)
			default:
				return Term{}, false
			}
		}
		if pv.Addr != nil || pv.T.S == "" {
			return Term{}, false
		}
		return pv.T, true
	}
	switch x := v.(type) {
	case *ssa.Parameter, *ssa.FreeVar:
		return plain(v)
	case *ssa.Phi:
		if x.Block() != nil && (x.Block().Index == li.header || li.body[x.Block().Index]) {
			return Term{}, false
		}
		return plain(v)
	case *ssa.Slice:
		// s[a:b] of an invariant slice has the same region (callers only use the region of slices)
		if _, isSlice := x.X.Type().Underlying().(*types.Slice); isSlice {
			if x.Block() != nil && li.body[x.Block().Index] {
				return f.invariantValue(li, x.X, eff, depth+1)
			}
		}
	case *ssa.UnOp:
		if x.Op == token.MUL && x.Block() != nil && li.body[x.Block().Index] {
			// a load inside the loop from a location the loop does not write
			switch a := x.X.(type) {
			case *ssa.Alloc:
				if a.Block() != nil && li.body[a.Block().Index] {
					return Term{}, false
				}
				if !f.cellStableInLoop(li, a) {
					return Term{}, false
				}
				av, ok := f.vals[a]
				if !ok {
					return Term{}, false
				}
				ad := f.ptrAddr(av, a.Type())
				if ad == nil {
					return Term{}, false
				}
				t := e.loadAddr(f.st, ad)
				if t.Sort != SRef && t.Sort != SSlice {
					return Term{}, false
				}
				return t, true
			case *ssa.FieldAddr:
				if _, nested := a.X.(*ssa.FieldAddr); nested {
					return Term{}, false
				}
				base, ok := f.invariantValue(li, a.X, eff, depth+1)
				if !ok || base.Sort != SRef {
					return Term{}, false
				}
				st := a.X.Type().Underlying().(*types.Pointer).Elem()
				loc := e.fieldLoc(st, a.Field, base)
				if _, written := eff.names[loc.heap]; written || eff.all || len(loc.keys) != 1 {
					return Term{}, false
				}
				t := e.loadAddr(f.st, loc)
				if t.Sort != SRef && t.Sort != SSlice {
					return Term{}, false
				}
				return t, true
			}
			return Term{}, false
		}
	}
	if in, ok := v.(ssa.Instruction); ok {
		if in.Block() == nil || li.body[in.Block().Index] {
			return Term{}, false
		}
	}
	return plain(v)
}

// cellStableInLoop: the loop body only loads from the local variable cell a (no store, no escape), and does not call
// function values (a closure created outside could write the cell).
func (f *Frame) cellStableInLoop(li *loopInfo, a *ssa.Alloc) bool {
	if a.Referrers() != nil {
		for _, r := range *a.Referrers() {
			if r.Block() == nil || !li.body[r.Block().Index] {
				continue
			}
			switch rr := r.(type) {
			case *ssa.DebugRef:
			case *ssa.UnOp:
				if rr.Op != token.MUL {
					return false
				}
			default:
				return false
			}
		}
	}
	for bi := range li.body {
		for _, in := range f.fn.Blocks[bi].Instrs {
			var c *ssa.CallCommon
			switch x := in.(type) {
			case *ssa.Call:
				c = x.Common()
			case *ssa.Go:
				c = x.Common()
			}
			if c == nil || c.IsInvoke() {
				continue
			}
			if _, isBuiltin := c.Value.(*ssa.Builtin); isBuiltin {
				continue
			}
			if c.StaticCallee() == nil {
				return false
			}
			if _, isClosure := c.Value.(*ssa.MakeClosure); isClosure {
				return false
			}
		}
	}
	return true
}

// storeTarget resolves the key of heap hn written by a store through address a; touched=false when the store does not
// write hn at all; ok=false when it does but the key is not fixed.
func (f *Frame) storeTarget(li *loopInfo, a ssa.Value, hn string, eff *effects) (key Term, touched, fresh, ok bool) {
	tmp := newEffects()
	f.addrEffects(a, tmp)
	if _, t := tmp.names[hn]; !t {
		return Term{}, false, false, true
	}
	region := func(sl ssa.Value) (Term, bool) {
		t, ok := f.invariantValue(li, sl, eff, 0)
		if !ok || t.Sort != SSlice {
			return Term{}, false
		}
		return sReg(t), true
	}
	switch x := a.(type) {
	case *ssa.Alloc:
		if x.Block() != nil && li.body[x.Block().Index] {
			return Term{}, true, true, true
		}
		if v, ok := f.vals[x]; ok && v.Addr == nil && v.T.S != "" {
			return v.T, true, false, true
		}
	case *ssa.FieldAddr:
		root := x
		for {
			if p, ok := root.X.(*ssa.FieldAddr); ok {
				root = p
				continue
			}
			break
		}
		st := root.X.Type().Underlying().(*types.Pointer).Elem()
		if _, isArr := st.Underlying().(*types.Struct).Field(root.Field).Type().Underlying().(*types.Array); isArr {
			return Term{}, true, false, false // embedded arrays live at derived regions
		}
		switch b := root.X.(type) {
		case *ssa.Alloc:
			if b.Block() != nil && li.body[b.Block().Index] {
				return Term{}, true, true, true
			}
			if v, ok := f.vals[b]; ok && v.Addr == nil && v.T.S != "" {
				return v.T, true, false, true
			}
		case *ssa.IndexAddr:
			if _, isSlice := b.X.Type().Underlying().(*types.Slice); isSlice {
				if r, ok := region(b.X); ok {
					return r, true, false, true
				}
			}
		default:
			if t, ok := f.invariantValue(li, root.X, eff, 0); ok && t.Sort == SRef {
				return t, true, false, true
			}
		}
	case *ssa.IndexAddr:
		if _, isSlice := x.X.Type().Underlying().(*types.Slice); isSlice {
			if r, ok := region(x.X); ok {
				return r, true, false, true
			}
		}
	default:
		if _, isPtr := a.Type().Underlying().(*types.Pointer); isPtr {
			if t, ok := f.invariantValue(li, a, eff, 0); ok && t.Sort == SRef {
				return t, true, false, true
			}
		}
	}
	return Term{}, true, false, false
}

// contractCallTargets resolves the keys of hn that a call to a callee with a modifies clause may write.
func (f *Frame) contractCallTargets(li *loopInfo, c *ssa.CallCommon, ct *Contract, hn string, eff *effects) (keys []Term, ok bool) {
	e := f.e
	for _, m := range ct.Modifies {
		if m == "*" {
			return nil, false
		}
		if m == "bytes" {
			if hb, _ := e.elemHeapName(SBV8); hb == hn {
				return nil, false
			}
			continue
		}
		form := m
		contents := strings.HasSuffix(form, "[*]")
		form = strings.TrimSuffix(form, "[*]")
		star := strings.HasPrefix(form, "*")
		form = strings.TrimPrefix(form, "*")
		root, field := form, ""
		if k := strings.Index(form, "."); k >= 0 {
			root, field = form[:k], form[k+1:]
		}
		if strings.ContainsAny(field, ".[ ") || strings.ContainsAny(root, "[ ") {
			return nil, false
		}
		idx := -1
		for i, pn := range ct.Params {
			if pn == root {
				idx = i
			}
		}
		if idx < 0 {
			return nil, false
		}
		var argv ssa.Value
		if c.IsInvoke() {
			if idx == 0 {
				argv = c.Value
			} else if idx-1 < len(c.Args) {
				argv = c.Args[idx-1]
			}
		} else if idx < len(c.Args) {
			argv = c.Args[idx]
		}
		if argv == nil {
			return nil, false
		}
		// &s[i] (possibly a field inside the element): the pointee lives in the element heap of s
		inner := argv
		for {
			if fa, ok := inner.(*ssa.FieldAddr); ok {
				inner = fa.X
				continue
			}
			break
		}
		if ia, ok := inner.(*ssa.IndexAddr); ok {
			if sl, isSlice := ia.X.Type().Underlying().(*types.Slice); isSlice {
				eh, _ := e.elemHeapName(e.sortOf(sl.Elem()))
				if contents {
					return nil, false
				}
				if eh != hn {
					continue
				}
				t, ok := f.invariantValue(li, ia.X, eff, 0)
				if !ok || t.Sort != SSlice {
					return nil, false
				}
				keys = append(keys, sReg(t))
				continue
			}
			return nil, false
		}
		switch at := argv.Type().Underlying().(type) {
		case *types.Slice:
			if field != "" || star {
				return nil, false
			}
			eh, _ := e.elemHeapName(e.sortOf(at.Elem()))
			tmp := newEffects()
			f.typeEffects(argv.Type(), tmp, 0)
			if _, touches := tmp.names[hn]; !touches {
				continue
			}
			if eh != hn || refLike(at.Elem()) {
				return nil, false
			}
			t, ok := f.invariantValue(li, argv, eff, 0)
			if !ok || t.Sort != SSlice {
				return nil, false
			}
			keys = append(keys, sReg(t))
		case *types.Pointer:
			st, isStruct := at.Elem().Underlying().(*types.Struct)
			if !isStruct {
				return nil, false
			}
			if field != "" && !contents && !star {
				// x.f: the field cell only
				fi := -1
				for i := 0; i < st.NumFields(); i++ {
					if st.Field(i).Name() == field {
						fi = i
					}
				}
				if fi < 0 {
					return nil, false
				}
				loc := e.fieldLoc(at.Elem(), fi, i64(0))
				if loc.heap != hn {
					continue
				}
				if len(loc.keys) != 1 {
					return nil, false
				}
				t, ok := f.invariantValue(li, argv, eff, 0)
				if !ok || t.Sort != SRef {
					return nil, false
				}
				keys = append(keys, t)
				continue
			}
			// x / *x / x.f[*]: by type; resolvable only when hn is one of the object's own field heaps and nothing deeper
			tmp := newEffects()
			f.typeEffects(argv.Type(), tmp, 0)
			if _, touches := tmp.names[hn]; !touches {
				continue
			}
			return nil, false
		default:
			return nil, false
		}
	}
	return keys, true
}

// loopWriteTargets: see the comment at the top of the file.
func (f *Frame) loopWriteTargets(li *loopInfo, hn string, eff *effects) (keys []Term, ok bool) {
	e := f.e
	if !(strings.HasPrefix(hn, "HE_") || strings.HasPrefix(hn, "HF_") || strings.HasPrefix(hn, "HP_")) {
		return nil, false
	}
	seen := map[string]bool{}
	add := func(t Term) {
		if !seen[t.S] {
			seen[t.S] = true
			keys = append(keys, t)
		}
	}
	for bi := range li.body {
		for _, in := range f.fn.Blocks[bi].Instrs {
			switch x := in.(type) {
			case *ssa.Store:
				k, touched, fresh, ok := f.storeTarget(li, x.Addr, hn, eff)
				if !touched || fresh {
					continue
				}
				if !ok {
					return nil, false
				}
				add(k)
			case *ssa.MapUpdate:
				continue // map heaps are HM*: not handled here
			case *ssa.Call, *ssa.Defer, *ssa.Go:
				var c *ssa.CallCommon
				switch y := x.(type) {
				case *ssa.Call:
					c = y.Common()
				case *ssa.Defer:
					c = y.Common()
				case *ssa.Go:
					c = y.Common()
				}
				if _, isDefer := x.(*ssa.Defer); isDefer {
					return nil, false
				}
				if b, isB := c.Value.(*ssa.Builtin); isB {
					switch b.Name() {
					case "copy":
						sl, isSlice := c.Args[0].Type().Underlying().(*types.Slice)
						if !isSlice {
							continue
						}
						if n, _ := e.elemHeapName(e.sortOf(sl.Elem())); n != hn {
							continue
						}
						t, ok := f.invariantValue(li, c.Args[0], eff, 0)
						if !ok || t.Sort != SSlice {
							return nil, false
						}
						add(sReg(t))
					case "append":
						sl, isSlice := c.Args[0].Type().Underlying().(*types.Slice)
						if !isSlice {
							continue
						}
						if n, _ := e.elemHeapName(e.sortOf(sl.Elem())); n == hn {
							return nil, false
						}
					case "clear":
						return nil, false
					}
					continue
				}
				ce := newEffects()
				f.callEffects(c, ce, map[*ssa.Function]bool{}, 0)
				if _, touched := ce.names[hn]; !touched && !ce.all {
					continue
				}
				name := calleeName(c)
				ct := e.p.contracts.ByKey[name]
				if ct == nil && c.IsInvoke() {
					ct = e.p.contracts.ByKey[c.Method.FullName()]
				}
				if ct == nil || !ct.HasMod {
					return nil, false
				}
				ks, ok := f.contractCallTargets(li, c, ct, hn, eff)
				if !ok {
					return nil, false
				}
				for _, k := range ks {
					add(k)
				}
			}
		}
	}
	return keys, true
}
