package main

// Encoder: per verified function, collects SMT commands (declarations, definitions, assumptions)
// and named obligations. Also Go type -> SMT sort mapping and memory state.

import (
	"fmt"
	"go/types"
	"regexp"
	"sort"
	"strings"

	"golang.org/x/tools/go/ssa"
)

type Obligation struct {
	Name     string
	Kind     string
	Func     string // top-level function key
	Props    []string
	Goal     Term // to be proved (already includes reachability guard)
	CmdIdx   int  // number of commands preceding it
	Cover    bool // cover query: expected SAT (vacuity check)
	Text     string
	Pos      string
	Inlined  string
	ReplayOK bool
}

type Cand struct {
	Flag     string
	Desc     string
	EntryObl []*Obligation
	PresObl  []*Obligation
	Dropped  bool
}

type Enc struct {
	p        *Prog
	top      *ssa.Function
	contract *Contract
	preamble []string
	predecl  map[string]bool
	cmds     []string
	obls     []*Obligation
	cands    []*Cand
	nfresh   int
	sorts    map[string]Sort // type string -> struct sort
	sortN    int
	typeTags map[string]int
	trusted  map[string]bool
	notes    map[string]bool
	strLits  map[string]string
	oblNames map[string]int
	errGlobs []string
	quantN   int
	specDepth int
	unsupported []string
	readonlyHeaps map[string]bool
	siteHits      map[int]int
	returnHits    map[int]int
	ghostSorts    map[string]Sort
	ghostTypes    map[string]types.Type
	inlined       map[string]bool
	unknownCalls  map[string]bool
	usedContracts map[string]bool
	tracked       []string
	specErrors    []string
	covers        []*Obligation
	paramTerms    []Value
	resultTerms   []Value
	finalGuard    Term
	inlineN       int
	workdir       string
	encQ          int
	quantCands    bool
	callOrd       map[string]int
	callOrdSite   map[ssa.Instruction]map[string]int
	callSites     map[string][]ssa.Instruction
	globLen       map[string]int
	cloCellMap    map[*Frame]map[*ssa.Alloc]Value
	loopRTs       map[*Frame]map[int]*loopRT
}

func newEnc(p *Prog, top *ssa.Function, c *Contract) *Enc {
	return &Enc{p: p, top: top, contract: c, predecl: map[string]bool{}, sorts: map[string]Sort{},
		typeTags: map[string]int{}, trusted: map[string]bool{}, notes: map[string]bool{}, strLits: map[string]string{},
		oblNames: map[string]int{}}
}

func (e *Enc) fresh(prefix string) string {
	e.nfresh++
	return fmt.Sprintf("%s!%d", sanitize(prefix), e.nfresh)
}

func (e *Enc) pre(cmd string) { e.preamble = append(e.preamble, cmd) }

func (e *Enc) predeclare(name string, cmd string) {
	if e.predecl[name] {
		return
	}
	e.predecl[name] = true
	e.pre(cmd)
}

func (e *Enc) emit(cmd string) { e.cmds = append(e.cmds, cmd) }

// declare a fresh constant (havoc) in the command stream.
func (e *Enc) havoc(prefix string, s Sort) Term {
	n := e.fresh(prefix)
	e.emit(fmt.Sprintf("(declare-const %s %s)", n, s))
	return sym(n, s)
}

// define names a term (keeps queries DAG-shaped).
func (e *Enc) define(prefix string, t Term) Term {
	if t.isC || len(t.S) < 24 {
		return t
	}
	if t.Sort == SSlice && strings.HasPrefix(t.S, "(mk-slice ") {
		// keep slices with a constant length inline so that the length stays syntactically constant
		if parts := splitTop(t.S[1 : len(t.S)-1]); len(parts) == 5 && strings.HasPrefix(parts[3], "#x") && len(t.S) < 400 {
			return t
		}
	}
	n := e.fresh(prefix)
	e.emit(fmt.Sprintf("(define-fun %s () %s %s)", n, t.Sort, t.S))
	return sym(n, t.Sort)
}

func (e *Enc) assume(t Term) {
	if t.isC && t.c != 0 {
		return
	}
	e.emit(fmt.Sprintf("(assert %s)", t.S))
}

func (e *Enc) trust(s string) { e.trusted[s] = true }
func (e *Enc) note(s string)  { e.notes[s] = true }

func (e *Enc) addObl(kind, name string, guard, goal Term, props []string) *Obligation {
	full := name
	e.oblNames[full]++
	if n := e.oblNames[full]; n > 1 {
		full = fmt.Sprintf("%s~%d", full, n-1)
	}
	o := &Obligation{Name: full, Kind: kind, Goal: implies(guard, goal), CmdIdx: len(e.cmds), Props: props}
	e.obls = append(e.obls, o)
	return o
}

// ---------- sorts ----------

func (e *Enc) sortOf(t types.Type) Sort {
	switch u := t.Underlying().(type) {
	case *types.Basic:
		switch {
		case u.Info()&types.IsBoolean != 0:
			return SBool
		case u.Info()&types.IsInteger != 0:
			return bvSort(intWidth(u))
		case u.Info()&types.IsString != 0:
			return SStr
		case u.Info()&types.IsFloat != 0, u.Info()&types.IsComplex != 0:
			return SFloat
		case u.Kind() == types.UnsafePointer:
			return SRef
		case u.Kind() == types.UntypedNil:
			return SRef
		}
		return SRef
	case *types.Slice:
		return SSlice
	case *types.Pointer, *types.Map, *types.Chan, *types.Signature:
		return SRef
	case *types.Interface:
		return SIface
	case *types.Array:
		return arraySort(SBV64, e.sortOf(u.Elem()))
	case *types.Struct:
		return e.structSort(t, u)
	case *types.Tuple:
		return SRef
	case *types.TypeParam:
		return SIface
	}
	return SRef
}

func intWidth(b *types.Basic) int {
	switch b.Kind() {
	case types.Int8, types.Uint8:
		return 8
	case types.Int16, types.Uint16:
		return 16
	case types.Int32, types.Uint32:
		return 32
	case types.UntypedRune:
		return 32
	}
	return 64
}

func isSigned(t types.Type) bool {
	if b, ok := t.Underlying().(*types.Basic); ok {
		return b.Info()&types.IsInteger != 0 && b.Info()&types.IsUnsigned == 0
	}
	return false
}

func isInteger(t types.Type) bool {
	if b, ok := t.Underlying().(*types.Basic); ok {
		return b.Info()&types.IsInteger != 0
	}
	return false
}

func (e *Enc) structSort(t types.Type, st *types.Struct) Sort {
	key := types.TypeString(t, nil)
	if _, named := t.(*types.Named); !named {
		key = "anon:" + st.String()
	}
	if s, ok := e.sorts[key]; ok {
		return s
	}
	e.sortN++
	short := key
	if k := strings.LastIndex(short, "/"); k >= 0 {
		short = short[k+1:]
	}
	name := fmt.Sprintf("S%d_%s", e.sortN, sanitize(short))
	if len(name) > 60 {
		name = name[:60]
	}
	s := Sort(name)
	e.sorts[key] = s
	// fields first (may declare nested sorts)
	var fs []string
	for i := 0; i < st.NumFields(); i++ {
		fsort := e.sortOf(st.Field(i).Type())
		fs = append(fs, fmt.Sprintf("(%s.%d %s)", name, i, fsort))
	}
	if st.NumFields() == 0 {
		fs = append(fs, fmt.Sprintf("(%s.pad Bool)", name))
	}
	e.pre(fmt.Sprintf("(declare-datatypes ((%s 0)) (((mk_%s %s))))", name, name, strings.Join(fs, " ")))
	return s
}

func (e *Enc) structField(sv Term, t types.Type, i int) Term {
	st := t.Underlying().(*types.Struct)
	s := e.structSort(t, st)
	return app(e.sortOf(st.Field(i).Type()), fmt.Sprintf("%s.%d", s, i), sv)
}

func (e *Enc) mkStruct(t types.Type, fields []Term) Term {
	st := t.Underlying().(*types.Struct)
	s := e.structSort(t, st)
	if st.NumFields() == 0 {
		return app(s, "mk_"+string(s), tTrue)
	}
	return app(s, "mk_"+string(s), fields...)
}

func (e *Enc) structUpdate(sv Term, t types.Type, i int, nv Term) Term {
	st := t.Underlying().(*types.Struct)
	fs := make([]Term, st.NumFields())
	for k := range fs {
		if k == i {
			fs[k] = nv
		} else {
			fs[k] = e.structField(sv, t, k)
		}
	}
	return e.mkStruct(t, fs)
}

func (e *Enc) zero(t types.Type) Term {
	s := e.sortOf(t)
	switch u := t.Underlying().(type) {
	case *types.Basic:
		switch s {
		case SBool:
			return tFalse
		case SStr:
			return e.strLit("")
		case SFloat:
			e.predeclare("fzero", "(declare-const fzero Float)")
			return sym("fzero", SFloat)
		}
		if w := s.bvWidth(); w > 0 {
			return bvConst(0, w)
		}
	case *types.Slice:
		return mkSlice(i64(0), i64(0), i64(0), i64(0))
	case *types.Interface, *types.TypeParam:
		return sym("inil", SIface)
	case *types.Array:
		return e.constArray(s, e.zero(u.Elem()))
	case *types.Struct:
		fs := make([]Term, u.NumFields())
		for i := range fs {
			fs[i] = e.zero(u.Field(i).Type())
		}
		return e.mkStruct(t, fs)
	}
	if s == SRef {
		return i64(0)
	}
	return i64(0)
}

// constArray: ((as const A) v) when v is a literal value; otherwise (cvc5 rejects non-value arguments) a named
// array constant with a defining axiom.
func (e *Enc) constArray(s Sort, v Term) Term {
	// z3 accepts any term here; cvc5 only values: the cvc5 runner rewrites non-value constant arrays into a named
	// array with a defining axiom (see cvc5Compat)
	return Term{S: fmt.Sprintf("((as const %s) %s)", s, v.S), Sort: s}
}

func (e *Enc) strLit(v string) Term {
	if n, ok := e.strLits[v]; ok {
		return sym(n, SStr)
	}
	n := fmt.Sprintf("strlit%d", len(e.strLits))
	e.strLits[v] = n
	e.pre(fmt.Sprintf("(declare-const %s Str)", n))
	e.pre(fmt.Sprintf("(assert (= (strlen %s) %s))", n, i64(int64(len(v))).S))
	if len(v) <= 64 {
		for i := 0; i < len(v); i++ {
			e.pre(fmt.Sprintf("(assert (= (strat %s %s) %s))", n, i64(int64(i)).S, bvConst(uint64(v[i]), 8).S))
		}
	}
	return sym(n, SStr)
}

// finishPreamble adds facts that depend on everything seen (distinct string literals, error globals).
func (e *Enc) finishPreamble() []string {
	out := append([]string{}, e.preamble...)
	if len(e.strLits) > 1 {
		var names []string
		for _, n := range e.strLits {
			names = append(names, n)
		}
		sort.Strings(names)
		out = append(out, "(assert (distinct "+strings.Join(names, " ")+"))")
	}
	if len(e.errGlobs) > 0 {
		out = append(out, "(assert (distinct inil "+strings.Join(e.errGlobs, " ")+"))")
	}
	return out
}

var byteWordRe = regexp.MustCompile(`\bbyte\b`)
var runeWordRe = regexp.MustCompile(`\brune\b`)

func (e *Enc) typeTag(t types.Type) Term {
	key := types.TypeString(t, nil)
	key = runeWordRe.ReplaceAllString(byteWordRe.ReplaceAllString(key, "uint8"), "int32")
	n, ok := e.typeTags[key]
	if !ok {
		n = len(e.typeTags) + 1
		e.typeTags[key] = n
	}
	return i64(int64(n))
}

func (e *Enc) sortID(s Sort) string {
	return sanitize(strings.NewReplacer("(_ BitVec ", "bv", "(Array ", "A", ")", "", " ", "_").Replace(string(s)))
}

// ---------- box / unbox for interfaces ----------

func (e *Enc) boxFn(t types.Type) (string, string, Sort) {
	s := e.sortOf(t)
	id := fmt.Sprintf("%d", e.typeTag(t).c)
	bn, un := "box_"+id, "unbox_"+id
	e.predeclare(bn, fmt.Sprintf("(declare-fun %s (%s) Iface)\n(declare-fun %s (Iface) %s)", bn, s, un, s))
	return bn, un, s
}

func (e *Enc) box(t types.Type, v Term) Term {
	if _, isIface := t.Underlying().(*types.Interface); isIface {
		return v
	}
	bn, un, s := e.boxFn(t)
	b := e.define("box", app(SIface, bn, v))
	e.assume(eq(app(SBV64, "itag", b), e.typeTag(t)))
	e.assume(eq(app(s, un, b), v))
	return b
}

func (e *Enc) unbox(t types.Type, iv Term) Term {
	_, un, s := e.boxFn(t)
	return app(s, un, iv)
}

// ---------- memory state ----------

type State struct {
	heaps map[string]Term // heap/global/ghost name -> current value
	wm    Term            // allocation watermark (everything existing has id <= wm)
}

func (s *State) clone() *State {
	n := &State{heaps: make(map[string]Term, len(s.heaps)), wm: s.wm}
	for k, v := range s.heaps {
		n.heaps[k] = v
	}
	return n
}

// heap returns the current value of a state component, declaring its initial version on first use.
func (e *Enc) heap(st *State, name string, s Sort) Term {
	if t, ok := st.heaps[name]; ok {
		return t
	}
	init := name + "@0"
	e.predeclare(init, fmt.Sprintf("(declare-const %s %s)", init, s))
	t := sym(init, s)
	return t
}

func (e *Enc) setHeap(st *State, name string, t Term) {
	st.heaps[name] = e.define(name, t)
}

func (e *Enc) elemHeapName(el Sort) (string, Sort) {
	return "HE_" + e.sortID(el), arraySort(SRef, arraySort(SBV64, el))
}

func (e *Enc) cellHeapName(el Sort) (string, Sort) {
	return "HP_" + e.sortID(el), arraySort(SRef, el)
}

func (e *Enc) fieldHeapName(t types.Type, i int) (string, Sort) {
	st := t.Underlying().(*types.Struct)
	s := e.structSort(t, st)
	name := fmt.Sprintf("HF_%s_%d_%s", s, i, sanitize(st.Field(i).Name()))
	if e.p != nil && e.p.isReadonlyField(t, i) {
		if e.readonlyHeaps == nil {
			e.readonlyHeaps = map[string]bool{}
		}
		if !e.readonlyHeaps[name] {
			e.readonlyHeaps[name] = true
			e.trust("field declared read-only after construction (checked by a field-readonly structural obligation in the same run): " + readonlyFieldKey(t, st.Field(i).Name()))
		}
	}
	return name, arraySort(SRef, e.sortOf(st.Field(i).Type()))
}

// fieldLoc returns the address of field i of the struct object obj. Array-typed fields live in the element
// heap at a region derived from the object (so that slices of embedded arrays alias the field).
func (e *Enc) fieldLoc(t types.Type, i int, obj Term) *Addr {
	st := t.Underlying().(*types.Struct)
	ft := st.Field(i).Type()
	if arr, ok := ft.Underlying().(*types.Array); ok {
		hn, hs := e.elemHeapName(e.sortOf(arr.Elem()))
		return &Addr{heap: hn, hsort: hs, keys: []Term{e.fieldRegion(t, i, obj)}, typ: ft}
	}
	hn, hs := e.fieldHeapName(t, i)
	return &Addr{heap: hn, hsort: hs, keys: []Term{obj}, typ: ft}
}

// fieldRegion: regions of embedded arrays live in a separate id space (top bit set), derived injectively
// from the object identity and the field index; ordinary allocations stay below 2^48.
func (e *Enc) fieldRegion(t types.Type, i int, obj Term) Term {
	sh := app(SRef, "bvshl", obj, i64(8))
	return app(SRef, "bvor", bvConst(1<<63, 64), bvAdd(sh, i64(int64(i))))
}

// mergeStates builds the state at a join: ite over incoming edges.
func (e *Enc) mergeStates(label string, conds []Term, sts []*State) *State {
	if len(sts) == 1 {
		return sts[0].clone()
	}
	out := &State{heaps: map[string]Term{}}
	names := map[string]bool{}
	for _, s := range sts {
		for k := range s.heaps {
			names[k] = true
		}
	}
	var keys []string
	for k := range names {
		keys = append(keys, k)
	}
	sort.Strings(keys)
	for _, k := range keys {
		var vals []Term
		var srt Sort
		for _, s := range sts {
			if v, ok := s.heaps[k]; ok {
				srt = v.Sort
			}
		}
		same := true
		for _, s := range sts {
			v := e.heap(s, k, srt)
			vals = append(vals, v)
			if v.S != vals[0].S {
				same = false
			}
		}
		if same {
			out.heaps[k] = vals[0]
			continue
		}
		acc := vals[len(vals)-1]
		for i := len(vals) - 2; i >= 0; i-- {
			acc = ite(conds[i], vals[i], acc)
		}
		out.heaps[k] = e.define(k+"@"+label, acc)
	}
	// watermark
	same := true
	for _, s := range sts {
		if s.wm.S != sts[0].wm.S {
			same = false
		}
	}
	if same {
		out.wm = sts[0].wm
	} else {
		acc := sts[len(sts)-1].wm
		for i := len(sts) - 2; i >= 0; i-- {
			acc = ite(conds[i], sts[i].wm, acc)
		}
		out.wm = e.define("wm@"+label, acc)
	}
	return out
}

// alloc returns a fresh object identity greater than everything allocated so far.
func (e *Enc) alloc(st *State, prefix string) Term {
	a := e.havoc(prefix, SRef)
	e.assume(and(ult(st.wm, a), ult(a, i64(1<<48))))
	st.wm = a
	return a
}

// bumpWm models allocations by unknown code.
func (e *Enc) bumpWm(st *State) {
	w := e.havoc("wm", SRef)
	e.assume(and(ule(st.wm, w), ult(w, i64(1<<48))))
	st.wm = w
}

// existing asserts that a reference-like value was allocated before now.
func (e *Enc) assumeExisting(st *State, guard Term, v Term, t types.Type) {
	switch t.Underlying().(type) {
	case *types.Slice:
		e.assume(implies(guard, ule(sReg(v), st.wm)))
		e.assume(implies(guard, e.sliceWF(v)))
	case *types.Pointer, *types.Map, *types.Chan:
		e.assume(implies(guard, ule(v, st.wm)))
	case *types.Basic:
		if v.Sort == SStr {
			e.assume(implies(guard, and(sle(i64(0), app(SBV64, "strlen", v)), sle(app(SBV64, "strlen", v), i64(1<<40)))))
		}
	}
}

// sliceWF: 0 <= len <= cap <= 2^40, off within 2^40, nil slice has zero len/cap (A3).
func (e *Enc) sliceWF(s Term) Term {
	lim := i64(1 << 40)
	return and(sle(i64(0), sLen(s)), sle(sLen(s), sCap(s)), sle(sCap(s), lim),
		sle(i64(0), sOff(s)), sle(sOff(s), lim),
		implies(eq(sReg(s), i64(0)), eq(sCap(s), i64(0))))
}
