#!/usr/bin/env python3
# Generates the handle*Statement contracts of /repo/acra-censor/common/zz_contracts_verif.go (see header there).
import re,sys
src=open('/repo/acra-censor/common/matching_logic.go').read()
head=open('/verif/tools/censor_common_head.txt').read()
out=[head]
for m in re.finditer(r'func (handle(\w+)Statement)\(query, pattern sqlparser\.Statement\) bool \{\n(.*?)\n\}\n', src, re.S):
    name, kind, body = m.group(1), m.group(2), m.group(3)
    calls=re.findall(r'match = ([\w\.]+)\(', body)
    T='*sqlparser.'+kind
    out.append(f'//@ func {name}(query sqlparser.Statement, pattern sqlparser.Statement) (r bool)')
    out.append('//@   props C05')
    out.append('//@   pure')
    out.append('//@   noinline *')
    if not calls and 'reflect.DeepEqual' not in body:
        for _ in range(4): out.pop()
        continue
    if not calls:
        out.append('//@   ensures deep-equal: r == ret(reflect.DeepEqual)[0]')
        out.append('//@   at call reflect.DeepEqual : assert arg[0] == query && arg[1] == pattern')
        out.append('')
        continue
    out.append(f'//@   ensures same-kind: r ==> typeis(query, {T}) && typeis(pattern, {T})')
    cnt={}
    names=[]
    for c in calls:
        k=cnt.get(c,0); cnt[c]=k+1
        names.append(f'{c}#{k}')
    for i,(c,nm) in enumerate(zip(calls,names)):
        exc=''
        # the %%WHERE%% placeholder: a failed WHERE comparison is overridden when the pattern's WHERE is the placeholder
        after=body.split(c+'(',cnt.get('_seen_'+c,0)+1)
        if c=='areEqualWhere' and nm.endswith('#0') and 'isWherePattern(' in body:
            exc=' && !(called(isWherePattern) && ret(isWherePattern)[0])'
        out.append(f'//@   ensures veto-{nm.replace(".","-").replace("#","-")}: called({nm}) && !ret({nm})[0]{exc} ==> !r')
    out.append(f'//@   ensures all-agree: called({names[-1]}) && ret({names[-1]})[0] ==> r')
    if 'isWherePattern(' in body:
        out.append('//@   ensures where-placeholder: called(isWherePattern) && ret(isWherePattern)[0] ==> r')
    if re.search(r'reflect\.DeepEqual\(pattern, (\w+)\)', body):
        out.append(f'//@   ensures wildcard: typeis(query, {T}) && typeis(pattern, {T}) && ret(reflect.DeepEqual)[0] ==> r')
    out.append('')
# dispatcher: each pattern kind is sent to its handler with (query, pattern)
out.append('//@ func checkSinglePatternMatch(query sqlparser.Statement, pattern sqlparser.Statement) (ok bool)')
out.append('//@   props C05')
out.append('//@   pure')
for m in re.finditer(r'case \*sqlparser\.(\w+):\n\t\treturn (handle\w+Statement)\(query, pattern\)', src):
    kind, h = m.group(1), m.group(2)
    if ('func '+h+'(') not in '\n'.join(out): continue
    out.append(f'//@   ensures dispatch-{kind}: typeis(pattern, *sqlparser.{kind}) ==> ok == ufcall("{h}", 0, query, pattern)')
out.append('//@   modifies nothing')
out.append('')
open('/repo/acra-censor/common/zz_contracts_verif.go','w').write('\n'.join(out))
