#!/bin/bash
# Confirms a seeded change in a scratch worktree: demo passes on baseline, fails with the patch, pinned suite still passes.
# usage: confirm_seed.sh /verif/seeded/<id>
set -u
D=$1
export GOFLAGS=-mod=mod GOPROXY=off GOSUMDB=off GOTOOLCHAIN=local
WT=/tmp/wt_confirm_$$
H=/tmp/h_confirm_$$
git -C /repo worktree add -q --detach $WT HEAD || exit 2
mkdir -p $H
cat > $H/go.mod <<EOM
module h
go 1.23.0
require github.com/cossacklabs/acra v0.0.0
require github.com/cossacklabs/themis/gothemis v0.14.0
replace github.com/cossacklabs/acra => $WT
replace github.com/cossacklabs/themis/gothemis => /verif/stubs/gothemis
EOM
cp /repo/go.sum $H/go.sum
PKG=$(cat $D/demo_pkg.txt | tr -d ' \n')
REL=${PKG#github.com/cossacklabs/acra}
cp $D/zz_seed_demo_test.go $WT$REL/zz_seed_demo_test.go
echo "== baseline demo (expect PASS)"
(cd $H && go test -count=1 -vet=off -run 'Seed' $PKG 2>&1 | tail -3); B=${PIPESTATUS[0]}
(cd $H && go test -count=1 -vet=off -run 'Seed' $PKG >/dev/null 2>&1); B=$?
git -C $WT apply $D/patch.diff || { echo "PATCH DOES NOT APPLY"; git -C /repo worktree remove --force $WT; rm -rf $H; exit 3; }
echo "== mutated demo (expect FAIL)"
(cd $H && timeout 300 go test -count=1 -vet=off -run 'Seed' $PKG 2>&1 | tail -4)
(cd $H && timeout 300 go test -count=1 -vet=off -run 'Seed' $PKG >/dev/null 2>&1); M=$?
rm -f $WT$REL/zz_seed_demo_test.go
echo "== pinned suite with the patch (expect ok)"
(cd $WT && go test -mod=mod -vet=off -count=1 ./sqlparser/... ./keystore/v2/keystore/filesystem/backend/... ./keystore/v2/keystore/signature/... 2>&1 | grep -v "^ok\|no test files" | head -5); 
(cd $WT && go test -mod=mod -vet=off -count=1 ./sqlparser/... ./keystore/v2/keystore/filesystem/backend/... ./keystore/v2/keystore/signature/... >/dev/null 2>&1); S=$?
echo "== package tests with the patch through the stub module"
(cd $H && go test -count=1 -vet=off $PKG 2>&1 | tail -2); 
(cd $H && go test -count=1 -vet=off $PKG >/dev/null 2>&1); P=$?
git -C /repo worktree remove --force $WT; rm -rf $H
echo "RESULT baseline_demo_exit=$B mutated_demo_exit=$M pinned_suite_exit=$S package_tests_exit=$P"
[ $B -eq 0 ] && [ $M -ne 0 ] && [ $S -eq 0 ] && [ $P -eq 0 ]
