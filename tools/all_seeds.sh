#!/bin/bash
# Runs every confirmed seed against the quick check(s) of its property; prints one line per seed.
cd /verif
for d in seeded/*/; do
  d=${d%/}
  P=$(python3 -c "import json;print(json.load(open('$d/meta.json'))['property'])")
  out=$(tools/try_seed.sh $d $P 2>&1)
  n=$(echo "$out" | grep -c VIOLATION)
  echo "$d $P violations=$n $(echo "$out" | grep -m1 VIOLATION | sed 's/.*obligation=//' | cut -c1-120)"
done
