#!/bin/bash
# Runs the quick (default) or thorough check of every claimed property, sequentially; refreshes evidence/. usage: run_all.sh [quick|thorough]
T=${1:-quick}
cd /verif
export GOFLAGS=-mod=mod GOPROXY=off GOSUMDB=off GOTOOLCHAIN=local
rc=0
for P in $(python3 -c "import json;print(' '.join(c['property_id'] for c in json.load(open('MANIFEST.json'))['checks']))"); do
  bin/acv check --prop $P --tier $T 2>&1 | grep -E "^acv:|VIOLATION|KNOWN-FINDING" | cut -c1-300
  [ ${PIPESTATUS[0]} -eq 0 ] || rc=1
done
exit $rc
