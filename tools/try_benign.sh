#!/bin/bash
# Applies a behaviour-preserving edit to /repo, runs the quick checks of the given properties, restores /repo.
# usage: try_benign.sh benign/<set>/editN.diff Cxx [Cyy...]   (expected: no VIOLATION line)
D=$1; shift
export GOFLAGS=-mod=mod GOPROXY=off GOSUMDB=off GOTOOLCHAIN=local
[ -z "$(git -C /repo status --porcelain)" ] || { echo "/repo not clean"; exit 2; }
git -C /repo apply /verif/$D || { echo "patch does not apply: $D"; exit 3; }
for P in "$@"; do
  /verif/bin/acv check --prop $P --tier quick --no-evidence 2>&1 | grep -E "^acv:|VIOLATION" | cut -c1-330
done
git -C /repo checkout -- .
