#!/bin/bash
# Applies a seeded change to /repo, runs the property's quick check, and restores /repo. usage: try_seed.sh seeded/<dir> Cxx [Cyy...]
D=$1; shift
export GOFLAGS=-mod=mod GOPROXY=off GOSUMDB=off GOTOOLCHAIN=local
[ -z "$(git -C /repo status --porcelain)" ] || { echo "/repo not clean"; exit 2; }
git -C /repo apply /verif/$D/patch.diff || { echo "patch does not apply"; exit 3; }
for P in "$@"; do
  /verif/bin/acv check --prop $P --tier quick --no-evidence 2>&1 | grep -E "^acv:|VIOLATION" | cut -c1-420
done
git -C /repo checkout -- .
[ -z "$(git -C /repo status --porcelain)" ] && echo "repo restored"
