claim("C14", "Proof, per function, that the byte-level decoder entry points under contract cannot panic (index, slice, nil, division, make, type assertion, library preconditions) for any input: every implicit runtime check of the real SSA is an obligation over 64-bit bit-vectors, so all length-field values and all truncations are covered at once.",
      "Partial: only the functions listed in the evidence are covered; the generated SQL parser, YAML/JSON/ASN.1/protobuf decoders are not under contract.")
for pid in ["C01","C02","C03","C05","C06","C07","C08","C09","C10","C11","C12","C15","C16","C17","C18","C19","C20"]:
    na(pid, "check not built yet in this round (planned: see DESIGN.md §0)")
na("C04", "whole-session relation between client and database byte streams across cgo/reflective AST rewriters and two goroutines; no per-function contract states it; components are claimed under C01, C09-C12, C19")
na("C13", "parse(print(t)) = t relates ~150 Format methods to a generated LALR automaton; no function-level contract short of the grammar expresses it")
