// Package acvharness is the main module used for loading /repo through go/packages and for replays.
package acvharness
