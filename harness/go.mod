module acvharness

go 1.23.0

require github.com/cossacklabs/acra v0.0.0

require github.com/cossacklabs/themis/gothemis v0.14.0

replace github.com/cossacklabs/acra => /repo

replace github.com/cossacklabs/themis/gothemis => /verif/stubs/gothemis
